"""Layout properties: C06 (layout independence), C08 (canonical whitespace), C09 (line endings),
C10 (indentation settings), C11 (wrap_column is a limit) — structural clauses."""
import re
from facts import norm, Origins, _rv_operands
from progress import dominating_variant_facts, bfs_path, bfs_cycle
from table import Table, TooComplex, render, canon_place
from util import canon, short, origins, enum_variants_mentioned, local_reads

LANG = "pasfmt_core::lang::"
FD = LANG + "FormattingData"
RS = LANG + "ReconstructionSettings"
OLF = "pasfmt_core::rules::optimising_line_formatter::"
OLF_FMT = "<pasfmt_core::rules::optimising_line_formatter::OptimisingLineFormatter as pasfmt_core::traits::LogicalLineFileFormatter>::format"
ZERO_FN = "pasfmt_core::rules::optimising_line_formatter::OptimisingLineFormatter::remove_spaces_at_line_starts"
RECON = "<pasfmt_core::defaults::reconstructor::DelphiLogicalLinesReconstructor as pasfmt_core::traits::LogicalLinesReconstructor>::reconstruct"
RCL = RECON + "::{closure#0}"
TS = "pasfmt_core::rules::token_spacing::"
FC = "pasfmt::FormattingConfig"
DEBUGGY = ("core::fmt::Debug", "core::clone::Clone", "core::cmp::PartialEq", "core::hash::Hash")


# names the rules about reconstruct_solution refer to themselves: never spliced into it
RS_KEEP = ("reconstruct_solution", "get_formatting_data_mut", "get_formatting_data", "clamp", "get_tokens", "get")


def nondebug(name):
    return not any(d in name for d in DEBUGGY) and "optimising_line_formatter::debug::" not in name


def readers(prog, adt, field, kinds=("read", "ref")):
    return sorted({a[0].npath for a in prog.field_accesses(adt, field) if a[3] in kinds and nondebug(a[0].npath)})


def writers(prog, adt, field):
    return sorted({a[0].npath for a in prog.field_accesses(adt, field) if a[3].startswith("write") or a[3] == "refmut"})


def _root(x):
    return x.split("::{closure")[0]


def helper_closure(prog, found, reviewed):
    """Members of `found` that are not reviewed themselves but are *part of* reviewed code: closures / nested fns of a reviewed function, or
    private helpers whose every call site (in the workspace) lies in reviewed or already accepted code.  Extracting such a helper moves
    code, it does not add a new party — the semantic rules about what that code does still apply to it."""
    accepted = {}
    if prog is None:
        return accepted
    rev_roots = {_root(r) for r in reviewed}
    changed = True
    while changed:
        changed = False
        for x in found:
            if x in reviewed or x in accepted:
                continue
            rx = _root(x)
            okroots = rev_roots | {_root(a) for a in accepted}
            if rx in okroots or any(rx.startswith(r + "::") for r in okroots if not r.startswith("<")):
                accepted[x] = "closure / nested fn of reviewed " + short(rx)
                changed = True
                continue
            callers = {_root(c.body.npath) for c in prog.who_calls(rx) if c.body.crate.startswith("pasfmt")}

            def part_of_reviewed(c, depth=0, seen=()):
                """c is reviewed / accepted code, or (transitively) a private helper all of whose callers are"""
                if c in okroots or any(c.startswith(r + "::") for r in okroots if not r.startswith("<")):
                    return True
                if depth >= 3 or c in seen:
                    return False
                cc = {_root(k.body.npath) for k in prog.who_calls(c) if k.body.crate.startswith("pasfmt")}
                return bool(cc) and all(part_of_reviewed(k, depth + 1, seen + (c,)) for k in cc)
            if callers and all(part_of_reviewed(c) for c in callers):
                accepted[x] = "helper called only from reviewed code: " + ", ".join(sorted(short(c) for c in callers))
                changed = True
    return accepted


def inventory(rep, R, what, found, reviewed, why, helpers=True):
    found = sorted(found)
    acc = helper_closure(getattr(rep, "prog", None), found, list(reviewed)) if helpers else {}
    extra = [x for x in found if x not in reviewed and x not in acc]
    missing = [x for x in reviewed if x not in found]
    rep.check(not extra, R, "inventory:" + what, "new %s: %s (reviewed set: %s) — %s" % (what, [short(x) for x in extra], [short(x) for x in reviewed], why),
              instance={"what": what, "found": [short(x) for x in found], "accepted_as_part_of_reviewed_code": {short(k): v for k, v in acc.items()}})
    for k, v in acc.items():
        rep.note("%s: %s accepted (%s)" % (what, short(k), v))
    if missing:
        rep.note("%s: reviewed entries no longer present: %s" % (what, [short(x) for x in missing]))


# =========================================================================== C06

REC_OFFSET = "pasfmt_core::defaults::reconstructor::DelphiLogicalLinesReconstructor::offset_for_token"
CURSOR_BODIES = [
    "<pasfmt_core::defaults::reconstructor::DelphiLogicalLinesReconstructor as pasfmt_core::traits::LogicalLinesReconstructor>::process_cursors",
    "<pasfmt_core::defaults::reconstructor::DelphiLogicalLinesReconstructor as pasfmt_core::traits::LogicalLinesReconstructor>::process_cursors::{closure#1}",
    "pasfmt_core::defaults::reconstructor::DelphiLogicalLinesReconstructor::ws_len",
    "pasfmt_core::defaults::reconstructor::DelphiLogicalLinesReconstructor::nonbreaking_ws_len",
    "pasfmt_core::defaults::reconstructor::DelphiLogicalLinesReconstructor::col_for_token_end_pre_fmt",
    "<pasfmt_core::defaults::reconstructor::CursorTrackerImpl as pasfmt_core::traits::CursorTracker>::relocate_cursors",
    "pasfmt_core::defaults::reconstructor::DelphiLogicalLinesReconstructor::leading_newlines_len",
    "pasfmt_core::defaults::reconstructor::DelphiLogicalLinesReconstructor::leading_newlines_len::{closure#0}",
]
TOKEN_IMPLS = ["<pasfmt_core::lang::Token as pasfmt_core::lang::TokenData>::get_content", "<pasfmt_core::lang::Token as pasfmt_core::lang::TokenData>::get_leading_whitespace",
               "<pasfmt_core::lang::RawToken as pasfmt_core::lang::TokenData>::get_content", "<pasfmt_core::lang::RawToken as pasfmt_core::lang::TokenData>::get_leading_whitespace"]


def child_line_memo_key_is_complete(prog, rep, R):
    """The memo of child-line solutions is sound only if its key holds every input the memoised computation starts from.  Each field
    of the ChildLineInitialConditions key is the unmodified input itself (one origin: a captured variable or a parameter — not a
    constant, not a value that is chosen per case), and the line length in the key is the very value the computation initialises
    its running line length with.  A key that leaves the parent's line length out for some options returns a solution (with its
    over-limit penalties and line lengths) that was computed for another column."""
    b = prog.body(OLF + "InternalOptimisingLineFormatter::find_optimal_child_lines_solution")
    if not rep.check(b is not None, R, "anchor:find_optimal_child_lines_solution", "find_optimal_child_lines_solution not found"):
        return
    fam = [b] + [x for x in prog.bodies.values() if x.npath.startswith(b.npath + "::")]
    n = 0
    for x in fam:
        for bb, i, st in x.stmts():
            if not (st["k"] == "assign" and st["rv"]["k"] == "aggregate" and norm(st["rv"].get("adt", "")).endswith("ChildLineInitialConditions")):
                continue
            n += 1
            og = Origins(x)
            f = dict(zip(st["rv"]["fields"], st["rv"]["ops"]))
            bad = []
            for name, op in f.items():
                o = og.of_operand(op)
                if len(o) != 1 or next(iter(o))[0] not in ("upvar", "param"):
                    bad.append("%s = %s" % (name, sorted(str(y[:3]) for y in o)[:3]))
            # the running line length of the computation starts from the key's line length
            init = None
            for li in range(len(x.locals)):
                if x.local_name(li) == "last_line_length":
                    ds = [d for d in x.defs.get(li, []) if d[0] == "assign" and d[3]["rv"]["k"] == "use"]
                    firsts = [d for d in ds if not any(d[1] in L for L in x.loops().values())]
                    if firsts:
                        init = canon(x, firsts[0][3]["rv"]["op"])
            if "last_line_length" in f and init is not None and canon(x, f["last_line_length"]) != init:
                bad.append("key.last_line_length = %s but the computation starts from %s" % (canon(x, f["last_line_length"])[:40], init[:40]))
            rep.check(not bad, R, "memo-key-holds-the-inputs:%s" % short(x.npath), "the key of the child-line memo does not hold the inputs of the memoised computation unchanged (%s): a solution computed for "
                      "one column is returned for another, so the width decides the layout in ways the search did not weigh" % bad[:2], where="%s:%d" % (x.file, abs(st.get("line", 0))),
                      instance={"fields": sorted(f), "bad": bad[:3]})
    rep.floor(R, "constructions of the child-line memo key", n, 1)


def _subst_args(text, body, site):
    """canonical text of a callee expression with `argN` replaced by the canonical text of the call site's N-th argument"""
    def rep_(m):
        k = int(m.group(1))
        return canon(body, site.args[k - 1]) if 0 < k <= len(site.args) else m.group(0)
    return re.sub(r"\barg(\d+)\b", rep_, text)


def tl_content_values(prog, body):
    """Where `body` produces a TokenLength and what its `content` is, as canonical text in terms of `body`: [(bb, text)].  Either the
    aggregate is built here, or by a workspace helper that returns one (`TokenLength::of(token, spaces)`): the helper's expression is
    then rewritten in terms of the call's arguments."""
    TL = OLF + "TokenLength"
    out = []
    for bb, i, st in body.stmts():
        if st["k"] == "assign" and st["rv"]["k"] == "aggregate" and norm(st["rv"].get("adt", "")) == TL and "content" in st["rv"].get("fields", []):
            out.append((bb, canon(body, st["rv"]["ops"][st["rv"]["fields"].index("content")])))
    for c in body.calls():
        if norm(str(c.t.get("dst_ty", ""))) != TL:
            continue
        cb = prog.body(c.resolved or c.callee or "")
        if cb is None or not cb.crate.startswith("pasfmt") or cb.npath == body.npath:
            continue
        for _, text in tl_content_values(prog, cb):
            out.append((c.bb, _subst_args(text, body, c)))
    return out


def tl_content_stores(prog, of):
    """Places of `of` that overwrite a cached TokenLength.content: a store into the field, or a store of a whole TokenLength through a
    reference (`*token_length = TokenLength::of(..)`): [(bb, canonical text of the new content)]."""
    TL = OLF + "TokenLength"
    out = []
    for a in prog.field_accesses(TL, "content", within={of.npath}):
        if a[3].startswith("write") and a[4]["rv"]["k"] in ("cast", "use"):
            out.append((a[1], canon(of, a[4]["rv"]["op"])))
    made = dict(tl_content_values(prog, of))
    og = None
    for bb, i, st in of.stmts():
        if st["k"] != "assign" or not st["dst"]["p"] or st["dst"]["p"][-1]["k"] != "deref":
            continue
        ty = of.locals[st["dst"]["l"]]["ty"].replace("&mut ", "").replace("&", "").strip()
        if norm(ty) != TL:
            continue
        if st["rv"]["k"] == "aggregate" and "content" in st["rv"].get("fields", []):
            out.append((bb, canon(of, st["rv"]["ops"][st["rv"]["fields"].index("content")])))
        elif st["rv"]["k"] == "use" and st["rv"]["op"]["k"] in ("copy", "move"):
            og = og or Origins(of)
            for o in og.of_operand(st["rv"]["op"]):
                if o[0] in ("call", "agg") and o[1] in made:
                    out.append((bb, made[o[1]]))
    return out


# iterator adapters that hand on every element (possibly decorated / reordered); anything else between the line list and the string pass
# is treated as able to drop lines
KEEPS_EVERY_ELEMENT = ("iter", "iter_mut", "into_iter", "enumerate", "rev", "by_ref", "peekable", "copied", "cloned", "zip", "inspect")


# iterator adapters that stop calling their closure as soon as it has answered
SHORT_CIRCUITING = ("any", "all", "find", "find_map", "position", "rposition", "try_for_each", "try_fold", "take_while", "map_while", "skip_while", "is_sorted_by")


def _effect_oracle(prog, crates, effects, field_writes):
    """npath -> what the function (its closures, the workspace functions it calls, depth 4) does to a token's text / a FormattingData, or None"""
    memo = {}

    def effect_of(npath, depth=0):
        if npath in memo:
            return memo[npath]
        memo[npath] = None
        b = prog.body(npath)
        res = None
        if b is not None and any(b.crate.startswith(c) for c in crates):
            fam = [b] + [x for x in prog.bodies.values() if x.npath.startswith(b.npath + "::{closure")]
            for x in fam:
                for c in x.calls():
                    tg = prog.callees_of_site(c) | {c.callee or ""}
                    hit = [t for t in tg if t in effects or any(t.endswith("::" + e.split("::")[-1]) and e.split("::")[-2] in t for e in effects)]
                    if hit:
                        res = "calls %s" % hit[0].split("::")[-1]
                        break
                    if depth < 4:
                        for t in tg:
                            if t and t != npath and not t.startswith(b.npath + "::{closure"):
                                r = effect_of(t, depth + 1)
                                if r:
                                    res = "%s -> %s" % (t.split("::")[-1], r)
                                    break
                    if res:
                        break
                if res:
                    break
                for bb, i, st in x.stmts():
                    if st["k"] == "assign" and st["dst"]["p"]:
                        for pe in st["dst"]["p"]:
                            if pe["k"] == "field" and any(norm(pe.get("adt") or "") == a and (f is None or pe.get("name") == f) for a, f in field_writes):
                                res = "stores %s.%s" % (pe.get("adt", "").split("::")[-1], pe.get("name"))
                    if res:
                        break
                if res:
                    break
        memo[npath] = res
        return res
    return effect_of


def effects_skipped_by_own_flag(prog, crates=("pasfmt_core",), effects=("pasfmt_core::lang::Token::set_content",), field_writes=(("pasfmt_core::lang::FormattingData", None),)):
    """The operator form of a short circuit: `changed = changed || step(x)` / `if !changed { changed = step(x) }` inside a loop, where
    `step` replaces token text or stores layout counters.  A call site with such an effect that lies in a loop behind a branch on a
    bool local which the loop itself assigns from that call's result, the other side of the branch staying in the loop: once the
    step has answered, it is never run for the remaining elements.  (A branch whose other side leaves the loop is a fixpoint / search
    loop and is not meant.)  -> [(site, description)], number of effectful call sites inside loops that were looked at"""
    from panic import source_place
    effect_of = _effect_oracle(prog, crates, effects, field_writes)
    out, n = [], 0
    for b in prog.bodies.values():
        if not any(b.crate.startswith(c) for c in crates) or "::tests::" in b.npath:
            continue
        loops = b.loops()
        if not loops:
            continue
        for c in b.calls():
            inl = [(h, L) for h, L in loops.items() if c.bb in L]
            if not inl or c.t.get("dst") is None:
                continue
            tg = prog.callees_of_site(c) | {c.callee or ""}
            eff = None
            for t in tg:
                if t in effects:
                    eff = "calls %s" % t.split("::")[-1]
                elif t:
                    r = effect_of(t)
                    if r:
                        eff = "%s -> %s" % (t.split("::")[-1], r)
                if eff:
                    break
            if not eff or b.locals[c.t["dst"]["l"]]["ty"] != "bool":
                continue
            n += 1
            # locals that hold the call's result
            holds = {c.t["dst"]["l"]}
            grew = True
            while grew:
                grew = False
                for bb, i, st in b.stmts():
                    if st["k"] == "assign" and not st["dst"]["p"] and st["dst"]["l"] not in holds and st["rv"]["k"] == "use" and st["rv"]["op"]["k"] in ("copy", "move") \
                            and not st["rv"]["op"]["place"]["p"] and st["rv"]["op"]["place"]["l"] in holds:
                        holds.add(st["dst"]["l"])
                        grew = True
            for h, L in inl:
                for sbb in L:
                    t = b.blocks[sbb]["term"]
                    if t["k"] != "switch" or sbb == c.bb or not b.dominates(sbb, c.bb):
                        continue
                    sp = source_place(b, t["discr"]) if t["discr"]["k"] in ("copy", "move") else None
                    if not sp or sp["p"] or sp["l"] not in holds:
                        continue
                    succ = [x for _, x in t["targets"]] + [t["otherwise"]]
                    # a side of the branch that stays in the loop and comes back to the header without passing the call
                    stays = [x for x in succ if x in L and x != c.bb and (x == h or b.can_reach_avoiding(x, {h}, {c.bb} | (set(range(len(b.blocks))) - set(L))))]
                    if stays:
                        out.append((c, "%s, skipped once `%s` is set" % (eff, b.locals[sp["l"]].get("name") or "_%d" % sp["l"])))
    return out, n


def effectful_short_circuits(prog, crates=("pasfmt_core",), effects=("pasfmt_core::lang::Token::set_content",), field_writes=(("pasfmt_core::lang::FormattingData", None),)):
    """Call sites `iter.any(closure)` (all / find / position / try_for_each / take_while ..) whose closure — itself, its nested closures or the
    workspace functions it calls (depth 4) — replaces a token's text or stores into a FormattingData: [(site, what the closure does)].
    Such an adapter stops at the first element for which the closure answers; the effect on the remaining elements never happens."""
    effect_of = _effect_oracle(prog, crates, effects, field_writes)
    out = []
    n = 0
    for b in prog.bodies.values():
        if not any(b.crate.startswith(c) for c in crates) or "::tests::" in b.npath:
            continue
        for c in b.calls():
            cal = c.callee or ""
            if cal.split("::")[-1] not in SHORT_CIRCUITING or not (cal.startswith("core::iter::") or cal.startswith("itertools::") or "Iterator" in cal):
                continue
            n += 1
            for a in c.args[1:]:
                if a["k"] in ("copy", "move") and not a["place"]["p"]:
                    clos = b.locals[a["place"]["l"]].get("closure")
                    if clos:
                        r = effect_of(norm(clos))
                        if r:
                            out.append((c, r))
    return out, n


def no_effect_behind_a_short_circuit(prog, rep, R):
    """C09.j — "every line terminator of a rewritten literal is the configured one", for every literal: a step that rewrites a token is
    applied to all the tokens it is meant for.  No closure that replaces token text or stores layout counters is driven by an iterator
    adapter that stops at the first answer (`any`, `all`, `find`, `position`, `try_for_each`, `take_while` ..): the tokens behind the
    first hit would keep the text / layout of the input (the second multi-line literal of a line keeps its CRLF and indentation)."""
    sites, n = effectful_short_circuits(prog)
    rep.check(not sites, R, "no-effect-behind-a-short-circuit",
              "a closure that %s is driven by the short-circuiting adapter `%s` in %s: the elements after the first one for which it answers are never visited"
              % ((sites[0][1], (sites[0][0].callee or "").split("::")[-1], short(sites[0][0].body.npath)) if sites else ("", "", "")),
              where=sites[0][0].where() if sites else None, instance={"short_circuiting_adapter_sites": n, "with_effects": len(sites)})
    rep.floor(R, "short-circuiting adapter call sites in the core", n, 10)
    # the operator form: `changed = changed || step(tok)` in a loop
    sk, m = effects_skipped_by_own_flag(prog)
    rep.check(not sk, R, "no-effect-skipped-by-its-own-flag",
              "in %s a step that %s: written as `flag = flag || step(x)` (or `if !flag { flag = step(x) }`) in a loop, the step is not run for the elements after the first one for which it answers"
              % ((short(sk[0][0].body.npath), sk[0][1]) if sk else ("", "")), where=sk[0][0].where() if sk else None, instance={"effectful_bool_steps_in_loops": m, "skipped_by_own_flag": len(sk)})


def reflow_root_is_first_pass_root(prog, rep, R):
    """C03.i = C10.d — "a second run returns the first run's output" / "the layout does not depend on whether a literal had to be
    re-indented": a line whose multi-line strings were rewritten is wrapped again from the line the FIRST pass wrapped it from.  The
    first pass starts at every line that has no parent, whose parent does not exist, or whose parent was voided; the reflow climbs from
    the rewritten line to its root.  Sibling agreement of the two decisions, as decision tables over (has a parent, the parent exists,
    the parent is voided): the climb goes on exactly where the first pass says `not a root`, and no other fact (the type of the line
    itself, whether the child is registered in some map ..) takes part.  Where they disagree, the line is re-wrapped from a line the
    first pass never wrapped it from: with other indentation, or not at all."""
    from util import family_bodies
    of = prog.body(OLF_FMT)
    if not rep.check(of is not None, R, "anchor:OLF::format", "OptimisingLineFormatter::format not found"):
        return

    # ---- the table form: both passes read the root of a line from one table built up front (`roots[i]`); then the two decisions agree by
    # construction, and what has to hold is that the table is right: (a) the one-step map sends a line to its live parent (parent exists
    # and is not voided) and otherwise to itself, (b) the table follows that map until a line is its own image (a loop whose exit test
    # is `map[x] == x`, not a fixed number of steps), (c) the first pass takes exactly the lines with roots[i] == i
    tfn = [prog.body(norm(c.t.get("resolved") or c.callee or "")) for c in of.calls()]
    tfn = [x for x in tfn if x is not None and x.npath.startswith(OLF) and x.locals[0]["ty"].replace(" ", "") in ("alloc::vec::Vec<usize>", "Vec<usize>")]
    if tfn:
        from table import Table as _T, TooComplex as _TC, render as _render
        T0 = tfn[0]
        fam_t = [T0] + [x for x in prog.bodies.values() if x.npath.startswith(T0.npath + "::")]
        bad_t = []
        step_ok = False
        for x in fam_t:
            if x is T0 or x.locals[0]["ty"] != "usize" or x.loops():
                continue
            try:
                tb = _T(prog, x, inline=1)
            except _TC:
                continue
            rows_ok, seen = True, set()
            for cons, res in tb.rows:
                r = _render(res)
                selfidx = bool(re.match(r"^place:arg\d+\.0$", r))
                kinds = []
                for c in cons:
                    k1 = str(c[1])
                    if c[0] == "is" and k1.endswith(".parent") and c[2] in ("Some", "None"):
                        kinds.append("P" + c[2])
                    elif c[0] == "is" and k1.startswith("get(") and c[2] in ("Some", "None"):
                        kinds.append("G" + c[2])
                    elif k1.endswith(".line_type") and (c[2] == "Voided" or c[2] == ("Voided",)):
                        kinds.append("V" if c[0] == "is" else "notV")
                    else:
                        kinds.append("?" + k1[:30])
                if any(k.startswith("?") for k in kinds):
                    continue
                live = "PSome" in kinds and "GSome" in kinds and "notV" in kinds
                seen.add("live" if live else "dead")
                rows_ok &= (not selfidx) if live else selfidx
            if len(tb.rows) >= 3 and seen == {"live", "dead"} and rows_ok:
                step_ok = True
        if not step_ok:
            bad_t.append("its one-step map is not `the live parent (exists, not voided), else the line itself`")
        fix = False
        for x in fam_t:
            for h, L in x.loops().items():
                for bb in L:
                    t = x.blocks[bb]["term"]
                    if t["k"] == "switch" and re.match(r"^(Ne|Eq)\(index\((.+),var:(\w+)\),var:\3\)$", canon(x, t["discr"])) and any(s2 not in L for s2 in x.succ[bb]):
                        fix = True
        if not fix:
            bad_t.append("it does not follow the map until a line is its own image (no loop that ends on `map[x] == x`): lines nested deeper than the number of steps taken get an intermediate child line as root")
        first_ok = any(re.match(r"^Eq\(index\((.+),(.+)\),\2\)$", canon(x, x.blocks[bb]["term"]["discr"])) or re.match(r"^Eq\((.+),index\((.+),\1\)\)$", canon(x, x.blocks[bb]["term"]["discr"]))
                       for x in [of] + list(prog.closures_of(of.npath)) for bb in x.reachable() if x.blocks[bb]["term"]["k"] == "switch")
        if not first_ok:
            bad_t.append("the first pass does not select the lines with roots[i] == i")
        rep.check(not bad_t, R, "reflow-root=first-pass-root", "the table of wrapping roots built by %s is not the root the first pass wraps a line from: %s" % (short(T0.npath), "; ".join(bad_t)),
                  where="%s:%d" % (T0.file, T0.line), instance={"form": "one table for both passes", "builder": short(T0.npath)})
        return

    def classify(cons, line_hint=None):
        """(P, G, V, foreign atoms) of a row: P = parent Some/None, G = parent line found Some/None, V = parent Voided True/False; atoms
        about anything else are foreign (the line's own type `Eof` is reported separately)"""
        P = G = V = None
        eof = None
        foreign = []
        for c in cons:
            key = str(c[1])
            k2 = re.sub(r"branch\((.*)\)(@Continue\.0)?", r"\1", key) if key.startswith("branch(") else key
            if c[0] == "cond":
                foreign.append(key[:90])
            elif re.search(r"(\.parent|get_parent\([^()]*\))$", k2) and "get(" not in k2:
                P = {"Some": "Some", "Continue": "Some", "None": "None", "Break": "None"}.get(c[2], c[2]) if c[0] == "is" else P
            elif "get(" in k2 and k2.rstrip(")").endswith("line_index") or (key.startswith("branch(get(") and "line_type" not in key):
                if c[0] == "is":
                    G = {"Some": "Some", "Continue": "Some", "None": "None", "Break": "None"}.get(c[2], c[2])
            elif "get(" in key and (key.endswith(".line_type") or key.endswith("line_type)")):
                if c[0] == "is":
                    V = True if c[2] == "Voided" else (False if V is None else V)
                    if c[2] != "Voided":
                        foreign.append("parent type %s" % c[2])
                elif c[0] == "not":
                    if "Voided" in c[2]:
                        V = False
                    else:
                        foreign.append("parent type not in %s" % (c[2],))
            elif key.endswith(".line_type") or key.endswith("get_line_type(" + (line_hint or "") + ")"):
                if c[0] == "is" and c[2] == "Eof":
                    eof = True
                elif c[0] == "not" and tuple(c[2]) == ("Eof",):
                    eof = False
                else:
                    foreign.append("own line type: %s %s" % (c[0], c[2]))
            else:
                foreign.append(key[:90])
        return P, G, V, eof, foreign

    CASES = [("None", None, None), ("Some", "None", None), ("Some", "Some", True), ("Some", "Some", False)]

    def truth(rows_classified, value_of):
        """case -> set of outcomes over the rows compatible with it"""
        out = {}
        for case in CASES:
            vals = set()
            for (P, G, V, eof, foreign), val in rows_classified:
                if P is not None and P != case[0]:
                    continue
                if case[0] == "Some" and G is not None and case[1] is not None and G != case[1]:
                    continue
                if case[0] == "None" and (G is not None or V is not None):
                    continue
                if case[1] == "None" and V is not None:
                    continue
                if case[2] is not None and V is not None and V != case[2]:
                    continue
                if eof is True:
                    continue                     # (the Eof line is never wrapped: not part of the comparison)
                vals.add(val)
            out[case] = vals
        return out
    # ---- the first pass: the filter in front of the loop that calls format_line
    first = None
    for c in of.calls():
        if (c.callee or "").endswith("Iterator::filter") and "arg3" in canon(of, c.args[0]):
            clos = of.locals[c.args[1]["place"]["l"]].get("closure") if c.args[1]["k"] in ("copy", "move") else None
            cb = prog.body(norm(clos)) if clos else None
            if cb is not None:
                try:
                    tb = Table(prog, cb, inline=2)
                    first = [(classify(cons), render(res)) for cons, res in tb.rows]
                except TooComplex:
                    first = None
    if first is None:
        # the same decision taken inside the loop: one iteration of the loop over the lines that contains the first wrapping call, as a
        # region table — a path that reaches the wrapping call has found a root, a path back to the loop header has skipped the line
        wc = sorted(wrapping_calls(prog, of), key=lambda c: c.bb)
        for w in wc:
            loops_w = [(h, L) for h, L in of.loops().items() if w.bb in L and any(c.bb == h and (c.callee or "").endswith("Iterator::next") and "arg3" in canon(of, c.args[0]) for c in of.calls())]
            if not loops_w:
                continue
            h, L = min(loops_w, key=lambda x: len(x[1]))
            nx = [c for c in of.calls() if c.bb == h and (c.callee or "").endswith("Iterator::next")][0]
            tt = of.blocks[nx.t["target"]]["term"]
            some = ([t_ for v, t_ in tt.get("targets", []) if v == 1] or [tt.get("otherwise")])[0]
            try:
                tb = Table(prog, of, start=some, stop={h, w.bb}, inline=2)
                first = [(classify(cons), "True" if end == w.bb else "False") for (cons, res), end in zip(tb.rows, tb.ends)]
            except TooComplex:
                first = None
            break
    if not rep.check(first is not None, R, "anchor:first-pass-roots", "the decision which lines the first wrapping pass starts from was not found (a filter over the line list, or the loop around the first wrapping call, in OptimisingLineFormatter::format)"):
        return
    ff = [f for cl, _ in first for f in cl[4]]
    t_first = truth(first, None)
    # ---- the reflow: the loop that climbs get_parent() in the family of format
    climb = None
    where = None
    for body, anchor, chain in family_bodies(prog, of):
        if body.npath.endswith("get_line_children"):
            continue
        for h, L in body.loops().items():
            def asks_parent(c, depth=0):
                if (c.callee or "").endswith("LogicalLine::get_parent"):
                    return True
                cb3 = prog.body(c.resolved or c.callee or "")
                return cb3 is not None and cb3.crate.startswith("pasfmt") and depth < 2 and any(asks_parent(k, depth + 1) for k in cb3.calls())
            if not any(c.bb in L and asks_parent(c) for c in body.calls()) and \
                    not any("parent" in canon(body, a) for c in body.calls() if c.bb in L for a in c.args[:1]):
                continue
            if any(c.bb in L and (c.callee or "").endswith("Iterator::next") for c in body.calls()):
                continue
            exits = {s2 for bb in L for s2 in body.succ[bb] if s2 not in L}
            try:
                tb = Table(prog, body, start=h, stop=exits | {h}, inline=2)
            except TooComplex:
                continue
            climb = [(classify(cons), "continue" if end == h else "stop") for (cons, res), end in zip(tb.rows, tb.ends)]
            where = body
    if not rep.check(climb is not None, R, "anchor:reflow-climb", "the loop that climbs from a rewritten line to the line its wrapping starts from was not found in the family of OptimisingLineFormatter::format"):
        return
    cf = [f for cl, _ in climb for f in cl[4]]
    t_climb = truth(climb, None)
    bad = []
    if cf:
        bad.append("the climb also looks at %s" % sorted(set(cf))[:2])
    if ff:
        bad.append("the first pass also looks at %s" % sorted(set(ff))[:2])
    for case in CASES:
        root = t_first.get(case, set())
        go = t_climb.get(case, set())
        want_go = {"continue"} if root == {"False"} else ({"stop"} if root == {"True"} else None)
        if want_go is None or go != want_go:
            bad.append("parent=%s, parent line found=%s, parent voided=%s: first pass root=%s, climb=%s" % (case[0], case[1], case[2], sorted(root), sorted(go)))
    rep.check(not bad, R, "reflow-root=first-pass-root",
              "the line a rewritten line is wrapped again from is not the line the first pass wrapped it from: %s" % bad[:3],
              where="%s:%d" % (where.file, where.line), instance={"cases": len(CASES), "climb_in": short(where.npath), "deviations": bad[:4]})


# adapters that end a traversal before the iterator is exhausted, or leave out elements by position
TRAVERSAL_CUTTERS = ("map_while", "take_while", "take", "skip", "skip_while", "step_by", "scan", "nth", "last", "find", "find_map", "position", "any", "all", "try_for_each", "try_fold")


def line_list_traversals_are_complete(prog, rep, R):
    """C08.j — "there are never two consecutive blank lines .. every line's indentation is a whole number of indentation units", for the
    tokens of every line: the wrapper reaches a logical line only if it was registered — as a top-level line or as a child of its parent
    (get_line_children) — so every pass of the wrapper over the list of logical lines visits the whole list.  The iterator that drives
    such a pass contains no adapter that ends the traversal early or picks elements by position (map_while, take_while, take, skip,
    step_by, scan ..): a line that is never reached keeps the input's blank lines and gets no indentation at all."""
    n = 0
    bad = []
    for b in sorted(prog.bodies.values(), key=lambda x: x.npath):
        if not b.npath.startswith(OLF) and not b.npath.startswith("<" + OLF):
            continue
        if not nondebug(b.npath) or b.kind == "Closure":
            continue
        params = [i for i in range(1, b.arg_count + 1) if re.match(r"^&(\[|alloc::vec::Vec<)pasfmt_core::lang::LogicalLine\b", b.locals[i]["ty"].replace("'_ ", "").replace("mut ", ""))]
        if not params:
            continue
        names = ["arg%d" % i for i in params]
        for c in b.calls():
            nm = (c.callee or "").split("::")[-1]
            if nm not in ("next", "for_each", "collect", "fold", "count", "sum", "extend") or not c.args:
                continue
            src = canon(b, c.args[0])
            flat, depth = "", 0
            for ch in src:
                if ch == "{":
                    depth += 1
                elif ch == "}":
                    depth -= 1
                elif depth == 0:
                    flat += ch
            if not any(re.search(r"\biter\(%s\)|\binto_iter\(%s\)" % (a, a), flat) for a in names):
                continue
            n += 1
            cut = [a for a in re.findall(r"([A-Za-z_][A-Za-z_0-9]*)\(", flat) if a in TRAVERSAL_CUTTERS]
            if cut:
                bad.append((b, c, cut, flat))
    rep.check(not bad, R, "line-list-traversals-are-complete",
              "%s walks the list of logical lines through `%s` (%s): the lines behind the cut are never registered / wrapped — they keep the blank lines of the input and get no indentation"
              % ((short(bad[0][0].npath), ", ".join(bad[0][2]), bad[0][3][:90]) if bad else ("", "", "")), where=bad[0][1].where() if bad else None,
              instance={"traversals": n, "cut": len(bad)})
    rep.floor(R, "traversals of the logical-line list in the wrapper", n, 3)


def string_pass_visits_every_line(prog, rep, R):
    """C12.h — "afterwards the closing quotes and all interior lines are indented exactly like the opening quotes' line": a literal is
    re-indented only when its logical line is handed to StringFormatter::format_multiline_strings, so the pass over the lines hands
    over every line: it iterates the whole line list (no adapter that can drop elements) and calls the formatter in every iteration.
    Which tokens a logical line owns is not a range (child lines and conditional-directive passes interleave), so a pre-selection of
    lines by token position leaves the literals of the others with their old indentation."""
    of = prog.body(OLF_FMT)
    if not rep.check(of is not None, R, "anchor:OLF::format", "OptimisingLineFormatter::format not found"):
        return
    sf = OLF + "multiline_strings::StringFormatter::format_multiline_strings"
    sites = []
    for b2 in [of] + list(prog.closures_of(of.npath)):
        sites += [(b2, c) for c in b2.calls_to(sf)]
    if not rep.check(len(sites) == 1, R, "anchor:string-pass", "expected one call of format_multiline_strings in OptimisingLineFormatter::format, found %d" % len(sites)):
        return
    b2, site = sites[0]
    src = None
    every = False
    if b2 is of:
        loops = [(h, L) for h, L in of.loops().items() if site.bb in L]
        loops.sort(key=lambda x: len(x[1]))
        for h, L in loops:
            nx = [c for c in of.calls() if c.bb == h and (c.callee or "").endswith("Iterator::next")]
            if len(nx) == 1:
                src = canon(of, nx[0].args[0])
                every = bfs_cycle(of, h, L, {site.bb}) is None
                break
    else:
        # `lines.for_each(|line| ..)` / `.map(..)` closure: the adapter chain it is handed to
        for c in of.calls():
            if (c.callee or "").startswith("core::iter::") and len(c.args) == 2 and any(
                    a["k"] in ("copy", "move") and not a["place"]["p"] and norm(of.locals[a["place"]["l"]].get("closure") or "") == b2.npath for a in c.args[1:]):
                src = canon(of, c.args[0]) if (c.callee or "").split("::")[-1] in ("for_each", "map", "filter_map", "flat_map", "fold", "try_for_each") else "%s(%s)" % ((c.callee or "").split("::")[-1], canon(of, c.args[0]))
                rets = set(b2.return_blocks())
                every = bool(rets) and all(b2.dominates(site.bb, r) for r in rets)
    if not rep.check(src is not None, R, "anchor:string-pass-driver", "the call of format_multiline_strings is not driven by an iterator over the lines"):
        return
    flat, depth = "", 0
    for ch in src:                         # what a closure captures is not part of the adapter chain
        if ch == "{":
            depth += 1
        elif ch == "}":
            depth -= 1
        elif depth == 0:
            flat += ch
    adapters = re.findall(r"([A-Za-z_][A-Za-z_0-9]*)\(", flat)
    foreign = [a for a in adapters if a not in KEEPS_EVERY_ELEMENT]
    whole = re.search(r"\biter\(arg3\)|\binto_iter\(arg3\)", src) is not None
    rep.check(whole and not foreign and every, R, "string-pass-over-every-line",
              "the multi-line string pass does not hand every logical line to the string formatter: it iterates %s%s%s — literals on the lines left out keep the indentation of the input"
              % (src[:120], " (adapters that can drop lines: %s)" % foreign if foreign else "", "" if every else " and an iteration can skip the call"),
              where=site.where(), instance={"iterates": src[:120], "every_iteration_calls": every})


def width_measures_agree(prog, rep, R):
    """Every place that measures token text for the width comparison uses the same measure: the first fill of the per-token length
    cache, its refresh after the multi-line strings were rewritten, and the length of a multi-line token's last line.  If they
    disagree (bytes here, characters there) a line is wrapped by one measure in the run that rewrites a string and by the other in
    the run over the result: the output is not a fixpoint, and the same text wraps differently depending on what else was rewritten."""
    of = prog.body(OLF_FMT)
    TL = OLF + "TokenLength"
    if not rep.check(of is not None, R, "anchor:OLF::format", "OptimisingLineFormatter::format not found"):
        return
    sites = {}

    def measure_of(text):
        m = re.match(r"^(?:\w+:)?([\w:]+)\(get_content\(", text)
        return m.group(1).split("::")[-1] if m else None
    from util import family_bodies
    fam = family_bodies(prog, of)
    stores = []                  # the refresh: a store into a cached TokenLength.content, in `format`, a closure of it or a helper they call
    for body, anchor, chain in fam:
        for bb, v in tl_content_stores(prog, body):
            stores.append((body.npath, bb, v))
    store_keys = {(n_, bb) for n_, bb, _ in stores}
    for b2 in [of] + list(prog.closures_of(of.npath)):
        for bb, v in tl_content_values(prog, b2):
            if (b2.npath, bb) in store_keys or (b2 is of and any(v == sv for n_, _, sv in stores if n_ == of.npath)):
                continue                      # the value built for the refresh
            sites["first fill of the length cache"] = UNIT_OF.get(measure_of(v), measure_of(v)) or v[:60]
    for n_, bb, v in stores:
        sites["refresh after the string rewrite"] = UNIT_OF.get(measure_of(v), measure_of(v)) or v[:60]
    g = prog.body(OLF + "InternalOptimisingLineFormatter::get_multiline_token_last_line_length")
    if g is not None:
        names = set()

        def collect(b3, depth=0):
            fam = [b3] + [x for x in prog.bodies.values() if x.npath.startswith(b3.npath + "::")]
            for x in fam:
                for c in x.calls():
                    nm = (c.callee or "").split("::")[-1]
                    # what turns a text (&str) into a number (a length or a byte offset)
                    dty = str(c.t.get("dst_ty", ""))
                    num = dty in ("usize", "u32", "u64", "u16") or dty in ("core::option::Option<usize>", "core::option::Option<u32>")
                    from_str = bool(c.args) and c.args[0]["k"] in ("copy", "move") and bool(re.match(r"^&('\w+ )?str$", x.local_ty(c.args[0]["place"]["l"])))
                    cb3 = prog.body(c.resolved or c.callee or "")
                    if cb3 is not None and cb3.crate.startswith("pasfmt") and cb3.npath.startswith(OLF) and from_str and depth < 2 and cb3.npath != b3.npath:
                        collect(cb3, depth + 1)         # a helper that measures: what it uses
                    elif num and from_str:
                        names.add(UNIT_OF.get(nm, nm))
        collect(g)
        sites["last line of a multi-line token"] = "+".join(sorted(names)) or "?"
    vals = set(sites.values())
    rep.check(len(sites) == 3 and len(vals) == 1, R, "width-measures-agree",
              "the places that measure token text for the width comparison do not use the same measure: %s" % sites, where="%s:%d" % (of.file, of.line), instance={"sites": sites})


def consolidator_commits_atomically(prog, rep, R):
    """The conditional-directive consolidator merges the directives written inside a statement into the statement's line and then voids
    the directives' own lines (the tokens are laid out as part of the statement).  A directive whose line is voided although the merge
    was abandoned belongs to no line any more: the wrapper never visits it and it keeps the line breaks it had in the input (zero or
    ten blank lines, glued to the previous token or not).  In expand_line the list of merged directives therefore reaches the caller
    only together with the replacement of the line's token list: a returned list that was pushed to is returned only behind that
    store; pushes into a caller-owned list are taken back (truncate / clear) on every path that returns without the store."""
    E = "pasfmt_core::rules::conditional_directive_consolidator::ConditionalDirectiveConsolidator::expand_line"
    b = prog.body(E)
    if not rep.check(b is not None, R, "anchor:expand_line", "ConditionalDirectiveConsolidator::expand_line not found"):
        return
    og = Origins(b)
    S = {c.bb for c in b.calls() if (c.callee or "").endswith("LogicalLine::get_tokens_mut")}
    if not rep.check(bool(S), R, "anchor:line-tokens-store", "expand_line no longer replaces the line's token list through get_tokens_mut()"):
        return
    pushes = [c for c in b.calls() if (c.callee or "").startswith("alloc::vec::Vec") and (c.callee or "").split("::")[-1] in ("push", "extend", "insert", "append", "extend_from_slice")]
    pushed = {}
    for c in pushes:
        for o in og.of_operand(c.args[0]):
            pushed.setdefault(o[:3], []).append(c)
    # (i) a list that is returned
    ret_sources = []
    for bb, i, st in b.stmts():
        if st["k"] == "assign" and st["dst"]["l"] == 0 and not st["dst"]["p"] and st["rv"]["k"] == "use":
            ret_sources.append((bb, {o[:3] for o in og.of_operand(st["rv"]["op"])}))
        elif st["k"] == "assign" and st["dst"]["l"] == 0 and st["rv"]["k"] == "aggregate":
            # `Some(directives)`, `(directives, changed)`, `Ok(..)`: the list travels inside the returned value
            srcs = set()
            for op in st["rv"]["ops"]:
                if op["k"] in ("copy", "move"):
                    srcs |= {o[:3] for o in og.of_operand(op)}
            ret_sources.append((bb, srcs))
    for c in b.calls():
        if c.t["dst"]["l"] == 0 and not c.t["dst"]["p"]:
            ret_sources.append((c.bb, {("call", c.bb, c.callee)}))
    n = 0
    for blk, origs in ret_sources:
        if not (origs & set(pushed)):
            continue                      # a fresh, empty list
        n += 1
        ok = any(b.dominates(s2, blk) for s2 in S)
        rep.check(ok, R, "merged-directives-returned-only-with-the-store", "expand_line returns the list of directives it has collected although the line's token list was not replaced on that path: "
                  "the caller voids the lines of directives that were merged into nothing", where="%s:%d" % (b.file, b.line), instance={"return_site": "bb%d" % blk})
    # (ii) a list owned by the caller
    rets = set(b.return_blocks())
    for key, cs in sorted(pushed.items(), key=str):
        if key[0] != "param":
            continue
        n += 1
        undo = {c.bb for c in b.calls() if (c.callee or "").startswith("alloc::vec::Vec") and (c.callee or "").split("::")[-1] in ("truncate", "clear", "drain", "set_len")
                and any(o[:3] == key for o in og.of_operand(c.args[0]))}
        leaks = [c for c in cs if b.can_reach_avoiding(c.bb, rets, S | undo)]
        rep.check(not leaks, R, "pushes-into-the-callers-list-are-taken-back",
                  "expand_line pushes directives into a list owned by its caller and can return without either replacing the line's token list or taking them back (truncate): the caller "
                  "voids the lines of directives that were merged into nothing — they keep the line breaks of the input", where=leaks[0].where() if leaks else None,
                  instance={"pushes": len(cs), "leaking": len(leaks)})
    rep.floor(R, "directive lists of expand_line that reach the caller", n, 1)


# the unit in which a std function counts text: byte lengths and byte offsets are the same measure
UNIT_OF = {"len": "bytes", "rfind": "bytes", "find": "bytes"}


OLF_SEARCH = "pasfmt_core::rules::optimising_line_formatter::InternalOptimisingLineFormatter::find_optimal_solution"
# how often the search (find_optimal_solution, its closures and private helpers called only from it) constructs each give-up value
GIVE_UP_SITES = {
    "NoSolutionFound": (2, "the required start of the line contradicts a hard rule for its first token; the search space is exhausted"),
    "IterationLimitReached": (1, "documented search budget (iteration_max)"),
}


def wrapper_gives_up_only_at_reviewed_sites(prog, rep, R):
    """C06.i — a line the wrapper gives up on keeps the line breaks it had in the input (only its line-start blanks are removed), so
    every way of giving up is a way for the input's layout to reach the output.  The places where a FormattingSolutionError value
    is constructed (as an aggregate or as a constant operand, e.g. the argument of `ok_or`) form a closed, reviewed inventory: they
    lie in the search function (its closures, private helpers called only from it) and there are as many per variant as reviewed.
    One more site (a depth guard, a size guard, a time budget ..) has to be reviewed here: it makes the output of the lines it hits
    depend on how they were wrapped in the input."""
    sites = {}
    for b in prog.bodies.values():
        if not b.crate.startswith("pasfmt_core") or not nondebug(b.npath):
            continue
        for adt, v in enum_variants_mentioned(b):
            if adt.endswith("optimising_line_formatter::FormattingSolutionError"):
                sites.setdefault(b.npath, []).append(v)
        for bb, i, st in b.stmts():
            if st["k"] == "assign" and st["rv"]["k"] == "aggregate" and st["rv"].get("agg") == "adt" and st["rv"]["ops"] \
                    and norm(st["rv"].get("adt", "")).endswith("optimising_line_formatter::FormattingSolutionError"):
                sites.setdefault(b.npath, []).append(st["rv"]["variant"])
    acc = helper_closure(prog, sorted(sites), [OLF_SEARCH])
    counts = {}
    for k, vs in sorted(sites.items()):
        inside = k == OLF_SEARCH or k.startswith(OLF_SEARCH + "::") or k in acc
        rep.check(inside, R, "give-up-site-outside-the-search:%s" % short(k),
                  "%s constructs a FormattingSolutionError (%s) outside the search function: a new way of giving up on a line, which then keeps the line breaks of the input" % (short(k), sorted(set(vs))),
                  where="%s:%d" % (prog.bodies[k].file, prog.bodies[k].line), instance={"body": short(k), "variants": sorted(set(vs))})
        for v in vs:
            counts[v] = counts.get(v, 0) + 1
    for v, n in sorted(counts.items()):
        want = GIVE_UP_SITES.get(v, (0, "UNREVIEWED"))
        rep.check(n <= want[0], R, "give-up-sites:%s" % v,
                  "the wrapper constructs %s at %d sites, %d are reviewed (%s): a new give-up site makes the output of the lines it hits depend on how they were wrapped in the input "
                  "(a line without a solution keeps its line breaks)" % (v, n, want[0], want[1]), where="%s:%d" % (prog.body(OLF_SEARCH).file, prog.body(OLF_SEARCH).line) if prog.body(OLF_SEARCH) else None,
                  instance={"variant": v, "sites": n, "reviewed": want[0], "reason": want[1]})
    rep.floor(R, "sites that construct a FormattingSolutionError", sum(counts.values()), 2)


def check_c06(prog, rep, tier, cfg):
    # C06.l — whether a comment is the first thing on its line (a layout fact that survives by design) is read off the text in front of
    # the comment — `input[..offset]` contains a line break, or nothing precedes — and not off a flag carried from token to token,
    # which goes stale where gaps have no blanks (shared with C13.d)
    import lexer_rules as _lx6
    from engine import AliasReport as _AR6
    _lx6.c13d(prog, _AR6(rep, [("C13.d", r".", "C06.l")]))
    wrapper_gives_up_only_at_reviewed_sites(prog, rep, "C06.i")
    format_line_declines_only_by_line_type(prog, rep, "C06.k")
    consolidator_commits_atomically(prog, rep, "C06.j")
    R = "C06.a"
    ws_callers = set()
    for nm in ("get_leading_whitespace",):
        for c in prog.who_calls(LANG + "TokenData::" + nm, "<pasfmt_core::lang::Token as pasfmt_core::lang::TokenData>::" + nm, "<pasfmt_core::lang::RawToken as pasfmt_core::lang::TokenData>::" + nm):
            if c.body.crate.startswith("pasfmt") and nondebug(c.body.npath):
                ws_callers.add(c.body.npath)
    inventory(rep, R, "readers of a token's original leading whitespace", ws_callers,
              ["pasfmt_core::defaults::parser::InternalDelphiLogicalLineParser::parse_asm_instructions", RCL, LANG + "FormattedTokens::new_from_tokens::{closure#0}"] + CURSOR_BODIES,
              "the output may depend on the input layout only through: comment first-on-line, blank-line groups, asm line breaks")
    gs = {c.body.npath for c in prog.who_calls(LANG + "RawToken::get_str", LANG + "Token::get_str") if c.body.crate.startswith("pasfmt") and nondebug(c.body.npath)}
    inventory(rep, R, "readers of a token's whole text incl. whitespace (get_str)", gs, CURSOR_BODIES, "cursor code only")
    for adt in (LANG + "RawToken", LANG + "Token"):
        r = readers(prog, adt, "ws_len")
        inventory(rep, R, "readers of %s.ws_len" % short(adt), r, TOKEN_IMPLS + ["<pasfmt_core::lang::Token as core::convert::From>::from"], "only the accessor impls split text into whitespace/content")
    nl = readers(prog, FD, "newlines_before")
    inventory(rep, R, "readers of FormattingData.newlines_before", nl,
              [OLF + "InternalOptimisingLineFormatter::reconstruct_solution", ZERO_FN, RCL, TS + "max_one_either_side::{closure#0}", TS + "max_one_either_side::{closure#1}"] + CURSOR_BODIES,
              "original newline counts may only be read for the blank-line clamp, line-start space removal (after the wrapper wrote them), emission, and the separated-or-not test of max_one_either_side")
    sp = readers(prog, FD, "spaces_before")
    inventory(rep, R, "readers of FormattingData.spaces_before", sp,
              [OLF_FMT + "::{closure#0}", RCL, TS + "max_one_either_side::{closure#0}", TS + "max_one_either_side::{closure#1}"] + CURSOR_BODIES,
              "original spacing may only be read by max_one_either_side (0-vs-some between literal-like tokens), the length table and emission")
    # the one place where the original newline count influences the result: clamp(1,2) on the first token of a line
    rs = prog.inlined(OLF + "InternalOptimisingLineFormatter::reconstruct_solution", keep=RS_KEEP)      # a per-decision helper is spliced in
    ok = False
    # two views of the same code: as written (a clamp helper is a call whose results are classified) and with single-use helpers spliced in
    # (a per-decision helper that contains the clamp); the rule holds if it holds in one of them
    for rs_view in ([prog.body(OLF + "InternalOptimisingLineFormatter::reconstruct_solution"), rs] if rs is not None else []):
        if ok or rs_view is None:
            continue
        rs = rs_view
        rd = [a for a in prog.field_accesses(FD, "newlines_before", bodies=[rs]) if a[3] == "read"]
        ok = len(rd) == 1
        if ok:
            (bd, bb, i, kind, s) = rd[0]
            val = s["dst"]["l"]
            users = [c for c in rs.calls() if any(a["k"] in ("copy", "move") and a["place"]["l"] == val for a in c.args)]
            from panic import dominating_conditions
            from util import small_value_class, within
            conds = dominating_conditions(rs, bb)
            if len(users) == 1 and users[0].callee == "core::cmp::Ord::clamp":
                ok = [a.get("int") for a in users[0].args[1:]] == [1, 2] and any(c[0] == "cmp" and c[1] == "Eq" and c[4] is True and "int" in c[3] and c[3]["int"] == 0 for c in conds)
            elif len(users) == 1 and prog.body(users[0].target or "") is not None and users[0].t.get("dst") and not users[0].t["dst"]["p"]:
                # a helper that receives the old count: its results must stay within 1..2 whatever the count is (the count can only choose between 1 and 2)
                vs = small_value_class(prog, rs, {"k": "use", "op": {"k": "copy", "place": users[0].t["dst"]}})
                ok = within(vs, 1, 2)
            else:
                ok = False
    rs = prog.inlined(OLF + "InternalOptimisingLineFormatter::reconstruct_solution", keep=RS_KEEP)
    if rep.check(rs is not None, R, "anchor:reconstruct_solution", "reconstruct_solution not found"):
        rep.check(ok, R, "newline-count-read-only-as-clamp(1,2)-on-first-token", "reconstruct_solution uses the input's newline count other than as clamp(_, 1, 2) for the first token of a line",
                  instance={"use": "newlines_before.clamp(1, 2) under decision_index == 0"})
    # FormattingData::from reduces whitespace to (newline count, blanks on the last line)
    ff = prog.find(r"<pasfmt_core::lang::FormattingData as core::convert::From<\(&str, bool\)>>::from$")
    if rep.check(len(ff) == 1, R, "anchor:FormattingData::from", "FormattingData::from((&str,bool)) not found"):
        agg = [s for _, _, s in ff[0].stmts() if s["k"] == "assign" and s["rv"]["k"] == "aggregate" and norm(s["rv"].get("adt", "")) == FD]
        ok = len(agg) == 1
        if ok:
            f = dict(zip(agg[0]["rv"]["fields"], agg[0]["rv"]["ops"]))
            ok = f["indentations_before"].get("int") == 0 and f["continuations_before"].get("int") == 0 and canon(ff[0], f["ignored"]) == "arg1.1"
            nlc = canon(ff[0], f["newlines_before"])
            # the line-break count: a filtered count over the characters or bytes of the whitespace (0x0A is never part of a multi-byte sequence)
            ok &= "count(filter(chars(arg1.0)" in nlc or "count(filter(bytes(arg1.0)" in nlc
        rep.check(ok, R, "whitespace-reduced-to-counts", "FormattingData::from keeps more of the original whitespace than (newline count, trailing blank count), or indentation/continuation do not start at 0")
    # lexer: text before a token is looked at only by the two comment classifiers
    pre = set()
    for k, b in prog.bodies.items():
        if b.file != "core/src/defaults/lexer.rs":
            continue
        for c in b.calls():
            if (c.callee or "") == "core::ops::index::Index::index" and len(c.args) > 1:
                cc = canon(b, c.args[1])
                if cc.startswith("RangeTo{arg1.offset") and canon(b, c.args[0]).endswith("arg1.input)") or (cc.startswith("RangeTo{arg1.offset") and canon(b, c.args[0]) == "arg1.input"):
                    pre.add(k)
    inventory(rep, R, "lexer functions reading the text before the token start", pre, ["pasfmt_core::defaults::lexer::line_comment", "pasfmt_core::defaults::lexer::_block_comment"],
              "only comments are classified by what precedes them (first on line or not)")
    fr = readers(prog, "pasfmt_core::defaults::lexer::LexState", "is_first")
    inventory(rep, R, "readers of LexState.is_first", fr, ["pasfmt_core::defaults::lexer::line_comment", "pasfmt_core::defaults::lexer::_block_comment"], "")
    # ---------------------------------------------------------------- C06.b overwrite-before-use in solved lines
    R = "C06.b"
    if rs is not None:
        loops = rs.loops()
        nlw = {a[1] for a in prog.field_accesses(FD, "newlines_before", bodies=[rs]) if a[3].startswith("write")}
        dl = [(h, L) for h, L in loops.items() if nlw and nlw <= L]
        dl.sort(key=lambda x: len(x[1]))
        if rep.check(len(dl) >= 1, R, "one-decision-loop", "reconstruct_solution has no loop over the decisions that contains the counter stores"):
            h, L = dl[-1]
            for f in ("newlines_before", "indentations_before", "continuations_before"):
                st = {a[1] for a in prog.field_accesses(FD, f, bodies=[rs]) if a[3].startswith("write")}
                cyc = bfs_cycle(rs, h, L, st)
                rep.check(bool(st) and cyc is None, R, "every-decision-overwrites:" + f, "a decision of a solved line can leave the input's %s in place" % f,
                          instance={"field": f, "store_blocks": len(st)})

    gap_coverage(prog, rep, "C06.c")
    original_ws_only_for_ignored(prog, rep, "C06.e")
    line_type_does_not_leak(prog, rep, "C06.f")
    children_of_voided_lines_are_laid_out(prog, rep, "C06.g")
    # C06.h — a line is taken out of the layout passes only if ALL of its tokens are ignored (shared with C07.e): otherwise tokens
    # outside any verbatim region keep the input's line breaks
    import text as _text
    from engine import AliasReport as _Alias
    _text.check_c07(prog, _Alias(rep, [("C07.e", r".", "C06.h")]), tier, cfg)
    # ---------------------------------------------------------------- C06.d where the spacing rule looks at a gap that is still as in the input, a line break counts as separation
    R = "C06.d"
    n = 0
    element_readers = set()
    for b2 in prog.bodies.values():
        if not b2.npath.startswith(TS) or b2.kind == "Closure":
            continue
        # element-wise readers: `get_formatting_data(tokens, IDX).map(closure)` — IDX = own index: the value was decided by the previous
        # token's rule (or belongs to a line start, zeroed later); IDX = own index + 1: the gap is still raw
        for c in b2.calls():
            if c.callee != "core::option::Option::map":
                continue
            src = canon(b2, c.args[0])
            m = re.match(r"^get_formatting_data\((\w+),(.+)\)$", src)
            if not m:
                continue
            clos = b2.locals[c.args[1]["place"]["l"]].get("closure") if c.args[1]["k"] in ("copy", "move") else None
            cb = prog.body(norm(clos)) if clos else None
            if cb is None and c.args[1]["k"] == "const" and c.args[1].get("fn"):
                cb = prog.body(norm(c.args[1]["fn"]))         # a nested / private fn handed over as a function item
            if cb is None or not [a for a in prog.field_accesses(FD, "spaces_before", within={cb.npath}) if a[3] in ("read", "ref")]:
                continue
            n += 1
            element_readers.add(cb.npath)
            ret = canon(cb, {"k": "copy", "place": {"l": 0, "p": []}})
            if cb.kind != "Closure":
                ret = re.sub(r"\barg1\.", "arg2.", ret)      # the element is the first parameter of a fn, the second of a closure
            raw = m.group(2).startswith("Add(") and m.group(2).endswith(",1)")
            if raw:
                ok = "arg2.spaces_before" in ret and "arg2.newlines_before" in ret and ret.startswith("min(") and ret.endswith(",1)")
            else:
                # the token's own gap holds what the previous token's rule decided: re-deriving it from the input's line breaks would undo a
                # decided 0 (`Foo(⏎'abc')` -> `Foo( 'abc')`)
                ok = ret in ("min(arg2.spaces_before,1)",)
            if not ok:
                # however it is written (`u16::from(s > 0 || n > 0)`, clamp ..): the reader, evaluated on sample counters, is the function
                # min(max(blanks, line breaks), 1) for a raw gap and min(blanks, 1) for the token's own gap
                try:
                    from table import run_concrete, eval_desc, vdesc, Unknown
                    tbr = Table(prog, cb, inline=1)
                    el = "arg2" if cb.kind == "Closure" else "arg1"
                    okv = True
                    for sp in (0, 1, 7, 65535):
                        for nl in (0, 1, 3, 65535):
                            env = {el + ".spaces_before": sp, el + ".newlines_before": nl}
                            res, _eff = run_concrete(tbr, env)
                            val = eval_desc(vdesc(res), env)
                            val = int(val) if isinstance(val, bool) else val
                            want = min(max(sp, nl), 1) if raw else min(sp, 1)
                            okv &= (val == want)
                    ok = okv
                except Exception:
                    ok = False
            rep.check(ok, R, "separation:%s:%s" % (short(b2.npath), "next" if raw else "own"),
                      "%s derives the space %s from %s — for a gap that is still as in the input, the blank count alone is the next line's indentation after a line break, so `a⏎b` (b at column 0) and `a b` format differently"
                      % (short(b2.npath), "after the token (raw gap of the next token)" if raw else "before the token", ret),
                      where="%s:%d" % (cb.file, cb.line), instance={"body": short(cb.npath), "gap": "next token (raw)" if raw else "own (decided by the previous rule)", "value": ret})
    readers_ts = sorted({a[0].npath for a in prog.field_accesses(FD, "spaces_before") if a[3] in ("read", "ref") and a[0].npath.startswith(TS)})
    rep.check(all("max_one_either_side::{closure" in r or r in element_readers for r in readers_ts), R, "raw-blank-count-readers", "the input's blank count is read in the spacing rule outside max_one_either_side's element closures: %s" % [short(r) for r in readers_ts],
              instance={"readers": [short(r) for r in readers_ts]})
    rep.floor(R, "readers of the input's blank count in the spacing rule", n, 2)


def line_type_does_not_leak(prog, rep, R):
    """C06.f — typestate of the parser's current line: whenever finish_logical_line returns, the line that is current from then on has
    the type Unknown (it is either a freshly pushed line or the still-empty one, reset).  parse_asm_instructions types its line
    *before* it knows whether the line will hold any token, so a type that survives the 'nothing to finish' exit is inherited by the
    tokens parsed next — the `end ;` after an asm block becomes an AsmInstruction line, is marked ignored and keeps the input's layout.
    Must-pass-through: every path entry -> return passes a block that (a) stores LogicalLineType::Unknown into a `.line_type` field,
    (b) builds a LocalLogicalLine whose line_type is Unknown, (c) calls set_logical_line_type(Unknown), or (d) calls a parser method
    for which the same holds on every path."""
    P = "pasfmt_core::defaults::parser::InternalDelphiLogicalLineParser::"
    LLL = "pasfmt_core::defaults::parser::LocalLogicalLine"
    b = prog.body(P + "finish_logical_line")
    if not rep.check(b is not None, R, "anchor:finish_logical_line", "finish_logical_line not found"):
        return

    def is_unknown(body, op):
        o = Origins(body).of_operand(op)
        def one(x):
            if x[0] == "agg":
                return str(x[3]).endswith("LogicalLineType::Unknown")
            if x[0] == "const":
                return x[1] == "enum_variant" and str(x[2]).endswith("Unknown")
            return False
        return bool(o) and all(one(x) for x in o)

    def reset_blocks(body, depth=0):
        out = set()
        for bb, i, s2 in body.stmts():
            if s2["k"] != "assign":
                continue
            dp = s2["dst"]["p"]
            rv = s2["rv"]
            if dp and dp[-1]["k"] == "field" and dp[-1].get("name") == "line_type" and norm(dp[-1].get("adt", "")) == LLL:
                if (rv["k"] == "use" and is_unknown(body, rv["op"])) or (rv["k"] == "aggregate" and rv.get("variant") == "Unknown"):
                    out.add(bb)
            if rv["k"] == "aggregate" and norm(rv.get("adt", "")) == LLL and "line_type" in rv.get("fields", []):
                if is_unknown(body, rv["ops"][rv["fields"].index("line_type")]):
                    out.add(bb)
        for c in body.calls():
            tgt = c.target or ""
            if tgt == P + "set_logical_line_type" and len(c.args) > 1 and is_unknown(body, c.args[1]):
                out.add(c.bb)
            elif tgt.startswith(P) and tgt != body.npath and depth < 2 and tgt != P + "set_logical_line_type":
                cb = prog.body(tgt)
                if cb is not None and cb.kind != "Closure" and len(list(cb.stmts())) < 400:
                    rb = reset_blocks(cb, depth + 1)
                    if rb and not any(cb.can_reach_avoiding(0, {r}, rb) and r not in rb for r in cb.return_blocks()):
                        out.add(c.bb)
        return out
    rb = reset_blocks(b)
    rets = list(b.return_blocks())
    bad = [r for r in rets if r not in rb and 0 not in rb and b.can_reach_avoiding(0, {r}, rb)]
    rep.check(bool(rets) and not bad, R, "current-line-is-Unknown-after-finish",
              "finish_logical_line can return (bb%s) without the current line's type being Unknown: a type set for a line that turned out empty (parse_asm_instructions types before it parses) is inherited by the tokens parsed next — e.g. the `end ;` closing an asm block becomes an ignored AsmInstruction line and keeps the input's layout"
              % bad[:3], where="%s:%d" % (b.file, b.line), instance={"returns": len(rets), "reset_blocks": sorted(rb)})
    rep.floor(R, "blocks of finish_logical_line that make the current line Unknown-typed", len(rb), 2)


def children_of_voided_lines_are_laid_out(prog, rep, R):
    """A child line is laid out only through its parent's solution, and the pipeline voids (empties) a line whose tokens are all
    ignored.  So the wrapper's choice of the lines it starts from must not be `has no parent` alone: the children of a voided
    parent would never be laid out — they keep the input's line breaks and blank lines and lose their indentation, outside any
    verbatim region.  Contradiction rule: (the pipeline voids lines) => (the wrapper's start filter looks at the parent's type)."""
    fb = prog.body("pasfmt_core::formatter::Formatter::format_into_buf")
    voids = [c for c in (fb.calls() if fb else []) if (c.callee or "").endswith("LogicalLine::void_and_drain")]
    if not voids:
        rep.ok(R, {"voiding": "the pipeline does not void lines"}, nontrivial=False)
        return
    of = prog.body(OLF_FMT)
    if not rep.check(of is not None, R, "anchor:OLF::format", "OptimisingLineFormatter::format not found"):
        return
    fam = [of] + [x for x in prog.bodies.values() if x.npath.startswith(of.npath + "::")]
    # .. plus helpers of the wrapper that are called from there (the parent test may be a function of its own)
    for x in list(fam):
        for c in x.calls():
            tgt = norm(c.t.get("resolved") or c.callee or "")
            cb = prog.body(tgt)
            if cb is not None and tgt.startswith(OLF) and cb not in fam and not cb.loops() and len(cb.blocks) < 60:
                fam.append(cb)
                fam += [y for y in prog.bodies.values() if y.npath.startswith(cb.npath + "::")]
    # the start filter: the closure (or the function itself) that asks a line for its parent
    starts = [x for x in fam if any((c.callee or "").endswith("LogicalLine::get_parent") for c in x.calls())]
    starts = [x for x in starts if x.kind == "Closure" and any((c.callee or "").endswith("::filter") and any(a["k"] in ("copy", "move") and not a["place"]["p"] and norm(of.locals[a["place"]["l"]].get("closure") or "") == x.npath for a in c.args) for c in of.calls())] or starts
    looks = False
    for x in starts:
        sub = [x] + [y for y in fam if y.npath.startswith(x.npath + "::")]
        if any(v == "Voided" for y in sub for _, v in enum_variants_mentioned(y)):
            looks = True
    rep.check(bool(starts) and looks, R, "children-of-voided-lines-are-started",
              "Formatter::format_into_buf voids lines whose tokens are all ignored, but the wrapper starts only from lines without a parent: the child lines of a voided line are never laid out "
              "(`// pasfmt off⏎if a then⏎// pasfmt on⏎⏎⏎⏎      foo(a,   b);` keeps the blank lines and puts `foo(a, b);` at column 0)",
              where="%s:%d" % (of.file, of.line), instance={"voiding_sites": len(voids), "start_filters": [short(x.npath) for x in starts], "looks_at_parent_type": looks})


def original_ws_only_for_ignored(prog, rep, R):
    """C06.e — the emission step looks at a token's original leading whitespace only for ignored tokens: every call of
    get_leading_whitespace in reconstruct (its per-token body and helpers reached only from there) is dominated by `is_ignored() == true`,
    directly or at every call site of the helper that contains it."""
    from panic import dominating_conditions
    GL = ("pasfmt_core::lang::TokenData::get_leading_whitespace", "<pasfmt_core::lang::Token as pasfmt_core::lang::TokenData>::get_leading_whitespace")

    def guarded(b, bb):
        return any(c[0] == "call" and c[1].endswith("is_ignored") and c[3] is True for c in dominating_conditions(b, bb))

    def emission_bodies():
        roots = {RECON}
        out = {k for k in prog.bodies if _root(k) == RECON}
        cands = [k for k, b in prog.bodies.items() if b.file.endswith("reconstructor.rs") and k not in CURSOR_BODIES and b.crate.startswith("pasfmt_core")]
        callers_of = {k: {_root(c.body.npath) for c in prog.who_calls(_root(k))} for k in cands}
        changed = True
        while changed:
            changed = False
            for k in cands:
                if k in out:
                    continue
                outr = {_root(x) for x in out}
                # reached only from the emission step — or shared with the cursor code that measures what is emitted
                if callers_of[k] & outr and callers_of[k] <= outr | {_root(x) for x in CURSOR_BODIES} | {REC_OFFSET}:
                    out.add(k)
                    changed = True
        return out
    n = 0
    for k in sorted(emission_bodies()):
        b = prog.bodies[k]
        for c in b.calls():
            if c.callee not in GL and c.target not in GL:
                continue
            n += 1
            ok = guarded(b, c.bb)
            if not ok and _root(k) != RECON:
                sites = [x for x in prog.who_calls(_root(k))]
                ok = bool(sites) and all(guarded(x.body, x.bb) for x in sites)
            rep.check(ok, R, "original-whitespace-only-when-ignored:" + short(k), "%s reads a token's original leading whitespace outside the `is_ignored()` arm of the emission step — for a formatted token the "
                      "whitespace must come from the decided counters alone" % short(k), where=c.where(), instance={"body": short(k), "guard": "is_ignored() == true"})
    rep.floor(R, "reads of the original whitespace in the emission step", n, 2)


def gap_coverage(prog, rep, R):
    """C06.c — every gap between two adjacent tokens is decided by the spacing table: for every (previous kind, next kind) either the
    previous token's rule sets the space after it or the next token's rule sets the space before it.  A gap nobody decides keeps the
    input's blank count (and the indentation width after an input line break) whenever the two tokens end up on one line."""
    from c02 import eval_row
    TS = "pasfmt_core::rules::token_spacing::"
    so = prog.body(TS + "space_operator")
    fmt = prog.body("<pasfmt_core::rules::token_spacing::TokenSpacing as pasfmt_core::traits::LogicalLineFileFormatter>::format")
    if not rep.check(so is not None and fmt is not None, R, "anchor:space_operator", "space_operator / TokenSpacing::format not found"):
        return
    try:
        tb = Table(prog, so, inline=1, opaque=("one_space_before", "one_space_either_side", "max_one_either_side", "spaces_before", "spaces_after"))
    except Exception as e:
        rep.fail(R, "space_operator-table", "space_operator is not a loop-free classifier any more: %s" % e)
        return

    def comp(res, idx):
        """'some' | 'none' | 'unknown' for component idx of the (before, after) pair"""
        if res.kind == "agg" and len(res.a[2]) == 2:
            v = res.a[2][idx]
            if v.kind == "agg":
                return "some" if str(v.a[1]) == "Some" or str(v.a[0]).endswith("Some") else ("none" if str(v.a[1]) == "None" or str(v.a[0]).endswith("None") else "unknown")
            if v.kind == "call":
                return "unknown"
            return "unknown"
        if res.kind == "call" and res.a[0].endswith("one_space_before"):
            return "some"      # (spaces_before(prev, 1), Some(0)): both components Some (checked below)
        return "unknown"

    def kind_of(cons):
        ch = [c for c in cons if c[1] == "arg1" or c[1].startswith("arg1@")]
        k = [c[2] for c in ch if c[0] == "is"]
        return tuple(k)

    after_none, before_none, unknown = [], [], []
    for cons, res in tb.rows:
        a, bfr = comp(res, 1), comp(res, 0)
        if a == "unknown" or bfr == "unknown":
            unknown.append((kind_of(cons), render(res)))
        if a == "none":
            after_none.append(cons)
        if bfr == "none":
            before_none.append(cons)
    rep.check(not unknown, R, "space_operator-rows-decidable", "space_operator has rows whose (before, after) pair cannot be read off: %s" % unknown[:3], instance={"rows": len(tb.rows)})
    rep.floor(R, "space_operator rows", len(tb.rows), 60)
    # helper functions always decide: spaces_before / spaces_after return Some on every row; one_space_before = (spaces_before(..), Some(0))
    for fn in ("spaces_before", "spaces_after"):
        hb = prog.body(TS + fn)
        if rep.check(hb is not None, R, "anchor:" + fn, fn + " not found"):
            th = Table(prog, hb)
            rep.check(all(render(r).startswith("Some(") for _, r in th.rows), R, fn + ":always-Some", "%s can return None: %s" % (fn, [render(r) for _, r in th.rows]), instance={"fn": fn, "rows": len(th.rows)})
    # the helpers that return a whole (before, after) pair decide both sides whenever the neighbouring token exists: a component is
    # Some(..), the result of spaces_before / spaces_after (always Some, above), or None only on a path that has found no token there.
    # (A pair helper that declines for some tokens — ignored ones, say — leaves their gaps to whoever comes next: often nobody.)
    npair = 0
    for hb in sorted(prog.bodies.values(), key=lambda x: x.npath):
        if not hb.npath.startswith(TS) or hb.kind == "Closure" or hb.npath == so.npath or hb.locals[0]["ty"].replace(" ", "") != "(core::option::Option<u16>,core::option::Option<u16>)":
            continue
        npair += 1
        try:
            th = Table(prog, hb, inline=1, opaque=("spaces_before", "spaces_after"))
        except TooComplex as e:
            rep.fail(R, "pair-helper-table:" + short(hb.npath), "%s is not a loop-free classifier: %s" % (short(hb.npath), e))
            continue
        declines = []
        for cons, res in th.rows:
            if not (res.kind == "agg" and len(res.a[2]) == 2):
                declines.append("result is not a pair: %s" % render(res)[:60])
                continue
            absent = any(c[0] == "is" and c[2] == "None" and "get(" in str(c[1]) for c in cons)
            for side, v in zip(("before", "after"), res.a[2]):
                r = render(v)
                if r.startswith("Some(") or r.startswith("call:spaces_before(") or r.startswith("call:spaces_after("):
                    continue
                if r == "None" and absent:
                    continue
                declines.append("`%s` is %s under %s" % (side, r[:40], [c[1][:70] for c in cons if c[0] == "cond"][:1]))
        rep.check(not declines, R, "pair-helper-always-decides:" + short(hb.npath), "%s has no opinion about a gap although the neighbouring token exists: %s — the gap is left to the other token's rule, "
                  "and where that has none either it keeps the input's blanks" % (short(hb.npath), declines[:2]), where="%s:%d" % (hb.file, hb.line), instance={"helper": short(hb.npath), "rows": len(th.rows)})
    rep.floor(R, "(before, after) pair helpers of the spacing table", npair, 3)
    # the dispatch in TokenSpacing::format: only Identifier leaves `before` open, only Comment(InlineLine) leaves `after` open
    open_before, open_after = set(), set()
    ntup = 0
    for bb, i, st in fmt.stmts():
        if st["k"] == "assign" and st["rv"]["k"] == "aggregate" and st["rv"].get("agg") == "tuple" and len(st["rv"]["ops"]) == 2:
            facts = [fx for fx in dominating_variant_facts(prog, fmt, bb) if "get_token_type_for_index(" in fx[0] and fx[1] == "is"]
            kinds = tuple(f[2][0] for f in facts if f[2])
            og = Origins(fmt)
            for idx, acc in ((0, open_before), (1, open_after)):
                o = og.of_operand(st["rv"]["ops"][idx])
                if not o or not all(x[0] == "agg" for x in o):
                    continue
                ntup += 1
                if any(x[3].endswith("Option::None") for x in o):
                    acc.add(kinds[1:] if kinds[:1] == ("Some",) else kinds)
    rep.check(open_before == {("Identifier",)} and open_after == {("Comment", "InlineLine")}, R, "format-dispatch-open-sides",
              "TokenSpacing::format leaves `before` open for %s and `after` open for %s (reviewed: Identifier / Comment(InlineLine))" % (sorted(open_before), sorted(open_after)),
              instance={"open_before": sorted(map(str, open_before)), "open_after": sorted(map(str, open_after))})
    # pairs: previous token P with `after` open  x  next token N with `before` open
    def as_val(kind):
        v = None
        for k in reversed(kind):
            v = (k,) if v is None else (k, v)
        return v
    holes = []
    npairs = 0
    P_rows = [("op", kind_of(c), c) for c in after_none]            # Comment(InlineLine) is exempt: see below
    N_rows = [("ident", ("Identifier",), None)] + [("op", kind_of(c), c) for c in before_none]
    for pk, pkind, pcons in P_rows:
        pval = ("Some", ("Op", as_val(pkind)))
        for nk, nkind, ncons in N_rows:
            npairs += 1
            nval = ("Some", ("Identifier",)) if nk == "ident" else ("Some", ("Op", as_val(nkind)))
            # does P's row admit N as the next token?
            m1 = eval_row([c for c in pcons if "Add(arg2,1)" in c[1]], [("tuple{Add(arg2,1)})", nval)])
            if m1 is False:
                continue
            # does N's row admit P as the previous token (immediately before, and as the previous real token)?
            if ncons is not None:
                m2 = eval_row([c for c in ncons if "wrapping_sub(arg2,1)" in c[1] or "{closure#1}" in c[1]], [("tuple{wrapping_sub(arg2,1)})", pval), ("tuple{arg2})", pval)])
                if m2 is False:
                    continue
            holes.append("%s then %s" % ("/".join(pkind), "/".join(nkind)))
    rep.check(not holes, R, "every-gap-decided", "nobody decides the space between %s — the gap keeps the input's blank count (or its indentation after an input line break)" % sorted(set(holes))[:6],
              instance={"after_open_operator_rows": len(after_none), "before_open_rows": len(before_none) + 1, "pairs_examined": npairs,
                        "exempt": "Comment(InlineLine) leaves `after` open: it is always followed by a line break (C02.a) and the next token's spaces are removed as a line start (C08.c)"})


def _zeroing_as_iterator_chain(prog, zf):
    """`formatted_tokens.tokens_mut()[.map(|(_, d)| d)].filter(|d| d.newlines_before > 0).for_each(|d| d.spaces_before = 0)`"""
    import re as _re
    fe = [c for c in zf.calls() if c.callee == "core::iter::traits::iterator::Iterator::for_each"]
    if len(fe) != 1 or zf.loops():
        return False
    chain = canon(zf, fe[0].args[0])
    if not _re.match(r"^filter\((map\()?tokens_mut\(arg1\)(,closure\{\}\))?,closure\{\}\)$", chain):
        return False
    allowed = {"core::iter::traits::iterator::Iterator::for_each", "core::iter::traits::iterator::Iterator::filter", "core::iter::traits::iterator::Iterator::map", "pasfmt_core::lang::FormattedTokens::tokens_mut"}
    if any(c.callee not in allowed for c in zf.calls()):
        return False
    cls = {}
    for c in zf.calls():
        nm = c.callee.split("::")[-1]
        if nm in ("map", "filter", "for_each"):
            a1 = c.args[1]
            clos = zf.locals[a1["place"]["l"]].get("closure") if a1["k"] in ("copy", "move") else None
            cls[nm] = prog.body(norm(clos)) if clos else None
    if cls.get("filter") is None or cls.get("for_each") is None:
        return False
    f, e, m = cls["filter"], cls["for_each"], cls.get("map")
    # filter: returns exactly `element.newlines_before > 0`
    ret = canon(f, {"k": "copy", "place": {"l": 0, "p": []}})
    if not _re.match(r"^Gt\(arg2(\.1)?\.newlines_before,0\)$", ret) or list(f.calls()):
        return False
    # for_each: a single unconditional store spaces_before = 0, nothing else
    st = [(bb, s2) for bb, _, s2 in e.stmts() if s2["k"] == "assign" and s2["dst"]["p"] and any(pe["k"] == "field" for pe in s2["dst"]["p"])]
    if len(st) != 1 or list(e.calls()) or len(e.reachable()) > 2:
        return False
    d = st[0][1]
    names = [pe.get("name") for pe in d["dst"]["p"] if pe["k"] == "field"]
    if names[-1:] != ["spaces_before"] or d["rv"]["k"] != "use" or d["rv"]["op"].get("int") != 0:
        return False
    # map (if any): a projection of the element, no calls
    if m is not None and (list(m.calls()) or not canon(m, {"k": "copy", "place": {"l": 0, "p": []}}).startswith("arg2.")):
        return False
    return True


def wrapping_calls(prog, body, depth=0):
    """Call sites in `body` that lay a line out: calls of format_line itself, or of a workspace function / closure of the wrapper whose
    own code calls format_line (`format_and_reconstruct_line(line)` extracted from two places counts as the wrapping it contains)."""
    FL = OLF + "InternalOptimisingLineFormatter::format_line"
    out = []
    for c in body.calls():
        tgt = norm(c.t.get("resolved") or c.callee or "")
        if tgt == FL:
            out.append(c)
            continue
        cb = prog.body(tgt)
        if cb is not None and cb.crate.startswith("pasfmt") and tgt.startswith(OLF) and depth < 2 and cb.npath != body.npath:
            fam = [cb] + [x for x in prog.bodies.values() if x.npath.startswith(cb.npath + "::")]
            if any(norm(k.t.get("resolved") or k.callee or "") == FL for x in fam for k in x.calls()):
                out.append(c)
    return out


def zeroing_after_wrapping(prog, rep, R):
    """Spaces before line-starting tokens are removed by one loop over all tokens, after the last wrapping pass."""
    of = prog.body(OLF_FMT)
    zf = prog.body(ZERO_FN)
    if rep.check(of is not None and zf is not None, R, "anchor:OLF::format+zeroing", "OptimisingLineFormatter::format / remove_spaces_at_line_starts not found"):
        from panic import dominating_conditions
        st = [a for a in prog.field_accesses(FD, "spaces_before", within={zf.npath}) if a[3].startswith("write")]
        ok = len(st) == 1
        if ok:
            b, bb, i, kind, s = st[0]
            conds = dominating_conditions(zf, bb)
            ok = s["rv"]["k"] == "use" and s["rv"]["op"].get("int") == 0
            ok &= any(c[0] == "cmp" and c[1] == "Gt" and c[4] is True and "newlines_before" in canon(zf, c[2]) and c[3].get("int") == 0 for c in conds) and len([c for c in conds if c[0] in ("cmp", "call")]) == 1
            loops = [(h, L) for h, L in zf.loops().items() if bb in L]
            ok &= len(loops) == 1
            if ok:
                h, L = loops[0]
                nx = [c for c in zf.calls() if c.bb in L and (c.callee or "").endswith("Iterator::next")]
                ok &= len(nx) == 1 and "Range{0,len(arg1)}" in canon(zf, nx[0].args[0])
                exits = [(x, s2) for x in L for s2 in zf.succ[x] if s2 not in L and zf.blocks[s2]["term"]["k"] != "unreachable"]
                ok &= len(exits) == 1
        form = "index loop"
        if not ok:
            ok, form = _zeroing_as_iterator_chain(prog, zf), "iterator chain"
        rep.check(ok, R, "zeroing-loop", "remove_spaces_at_line_starts no longer sets `spaces_before = 0` for exactly the tokens with `newlines_before > 0`, over every token (accepted shapes: "
                  "`for i in 0..len { if newlines_before > 0 {..} }` and `tokens_mut()[.map(data)].filter(newlines_before > 0).for_each(spaces_before = 0)`)",
                  instance={"shape": form, "guard": "newlines_before > 0", "store": "spaces_before = 0"})
        # every return of format() passes the zeroing, and no wrapping happens after it
        zc = of.calls_to(ZERO_FN)
        fls = wrapping_calls(prog, of)
        every = bool(zc) and bfs_path(of, 0, set(of.return_blocks()), {c.bb for c in zc}) is None
        after = [f for f in fls for c in zc if of.can_reach_avoiding(c.bb, {f.bb}, set())]
        rep.check(every and not after and len(fls) == 2, R, "line-start-spaces-zeroed-after-all-wrapping",
                  "OptimisingLineFormatter::format can return without removing line-start spaces, or wraps a line again after they were removed (a token continued by the second pass would lose its space and be glued to its neighbour)",
                  where="%s:%d" % (of.file, of.line), instance={"zeroing_calls": len(zc), "every_return_passes_zeroing": every, "format_line_after_zeroing": len(after)})

# =========================================================================== C08

def is_repeat_push_helper(prog, name):
    """`fn f(target: &mut String, unit: &str, count: N)` whose whole effect is `for _ in 0..count { target.push_str(unit) }`:
    one loop, one push_str(arg1, arg2) inside it, the iterated range ends at (a conversion of) arg3, no other effects."""
    cb = prog.body(name or "")
    if cb is None or cb.arg_count != 3 or len(cb.loops()) != 1:
        return False
    (h, L), = cb.loops().items()
    allowed = {"alloc::string::String::push_str", "core::iter::traits::iterator::Iterator::next", "core::iter::traits::collect::IntoIterator::into_iter",
               "core::convert::Into::into", "core::convert::From::from"}
    pushes = []
    for c in cb.calls():
        if c.callee == "alloc::string::String::push_str":
            pushes.append(c)
        elif c.callee not in allowed and not (c.callee or "").startswith("core::iter::range::"):
            return False
    if len(pushes) != 1 or pushes[0].bb not in L:
        return False
    og = Origins(cb)
    if not all(x[0] == "param" and x[1] == 1 for x in og.of_operand(pushes[0].args[0])) or not all(x[0] == "param" and x[1] == 2 for x in og.of_operand(pushes[0].args[1])):
        return False
    rng = [st for _, _, st in cb.stmts() if st["k"] == "assign" and st["rv"]["k"] == "aggregate" and (st["rv"].get("adt") or "").endswith("ops::range::Range")]
    if len(rng) != 1:
        return False
    lo, hi = rng[0]["rv"]["ops"]
    if not (lo["k"] == "const" and lo.get("int") == 0):
        return False
    oh = Origins(cb, extra_identity={"core::convert::Into::into", "core::convert::From::from"}).of_operand(hi)
    if not oh or not all(x[0] == "param" and x[1] == 3 for x in oh):
        return False
    # no stores through references other than what push_str does
    for bb, i, st in cb.stmts():
        if st["k"] == "assign" and st["dst"]["p"] and any(pe["k"] == "deref" for pe in st["dst"]["p"]):
            return False
    return True


def repeat_pairs(prog, body, depth=1):
    """[(counter class, unit origin names)] for every way `body` (and, one level deep, the helpers of its own impl that it calls) emits a
    unit string a counted number of times: `(0..n).for_each(|_| push_str(u))`, a verified repeat-push helper, or `u.repeat(n)`."""
    def cls(rng):
        return "indentations" if "indentations_before" in rng else ("continuations" if "continuations_before" in rng else ("newlines" if "newlines_before" in rng else ("spaces" if "spaces_before" in rng else rng)))
    out = [(cls(rng), src) for _, rng, src in foreach_pairs(prog, body)]
    og = Origins(body)
    for c in body.calls():
        if (c.callee or "").endswith("::repeat") and "str" in (c.callee or "") and len(c.args) == 2:
            o = og.of_operand(c.args[0])
            src = sorted((x[2].split("::")[-1] if x[0] == "call" else str(x)) for x in o)
            out.append((cls(canon(body, c.args[1])), src))
        elif depth:
            cb = prog.body(c.target or "")
            if cb is not None and cb.crate == body.crate and cb.npath != body.npath and _root(cb.npath).rsplit("::", 1)[0] == _root(body.npath).rsplit("::", 1)[0] and not is_repeat_push_helper(prog, c.target):
                out += repeat_pairs(prog, cb, depth - 1)
    return out


def foreach_pairs(prog, body):
    """[(call site, canonical range, sorted origin names of what the closure pushes)] for every `range.for_each(closure)` in body"""
    seq = []
    for c in body.calls():
        if c.callee != "core::iter::traits::iterator::Iterator::for_each":
            if is_repeat_push_helper(prog, c.target):
                # `push_repeated(buf, unit, count)`: the same idiom in helper form
                o = Origins(body).of_operand(c.args[1])
                src = sorted((x[2].split("::")[-1] if x[0] == "call" else ("' '" if x == ("const", "str", " ") else str(x))) for x in o)
                seq.append((c, "Range{0,%s}" % canon(body, c.args[2]), src))
            continue
        rng = canon(body, c.args[0])
        clos = None
        a1 = c.args[1]
        if a1["k"] in ("copy", "move"):
            clos = body.locals[a1["place"]["l"]].get("closure")
        cb = prog.body(norm(clos)) if clos else None
        src = None
        if cb is not None:
            og = Origins(cb)
            for pc in cb.calls():
                if pc.callee in ("alloc::string::String::push_str", "alloc::string::String::push"):
                    o = og.of_operand(pc.args[1])
                    src = sorted((x[2].split("::")[-1] if x[0] == "call" else ("' '" if x == ("const", "char", 32) else str(x))) for x in o)
        seq.append((c, rng, src))
    return seq


def _mentions(op, tainted):
    return isinstance(op, dict) and op.get("k") in ("copy", "move") and op["place"]["l"] in tainted


def _escapes_capacity_only(b, start):
    """Forward taint from local `start`; returns the list of uses other than capacity hints (empty = harmless)."""
    tainted = {start}
    out = []
    changed = True
    while changed:
        changed = False
        for bb, i, s2 in b.stmts():
            if s2["k"] != "assign":
                continue
            rv = s2["rv"]
            ops = [rv.get("op"), rv.get("a"), rv.get("b")] + list(rv.get("ops", []))
            pl = rv.get("place")
            hit = any(_mentions(o, tainted) for o in ops if o) or (pl is not None and pl["l"] in tainted)
            if hit and s2["dst"]["l"] not in tainted:
                if s2["dst"]["p"]:
                    out.append("stored into %s" % canon(b, {"k": "copy", "place": s2["dst"]}))
                else:
                    tainted.add(s2["dst"]["l"])
                    changed = True
    for c2 in b.calls():
        if any(_mentions(a, tainted) for a in c2.args):
            if (c2.callee or "").split("::")[-1] not in ("with_capacity", "reserve", "reserve_exact"):
                out.append("argument of %s" % c2.callee)
    for bb in b.reachable():
        t = b.blocks[bb]["term"]
        if t["k"] == "switch" and _mentions(t.get("discr"), tainted):
            out.append("decision in bb%d" % bb)
        if t["k"] == "return" and 0 in tainted:
            out.append("returned")
    return sorted(set(out))


def getter_use_discipline(prog, rep, R):
    """The indentation / continuation / newline strings are *emitted* by the emitters and *measured* by the measurers — never the other way round."""
    emitters = [RECON, "pasfmt_core::rules::optimising_line_formatter::multiline_strings::StringFormatter::try_rewrite_string"]
    n = 0
    for g in ("get_indentation_str", "get_continuation_str", "get_newline_str"):
        for c in prog.who_calls(RS + "::" + g):
            b = c.body
            if not b.crate.startswith("pasfmt") or not nondebug(b.npath):
                continue
            owner = b.npath.split("::{closure")[0]
            if owner not in emitters:
                continue
            n += 1
            dst = c.t.get("dst")
            if dst is None or dst["p"]:
                rep.fail(R, "getter-use:%s:%s" % (short(owner), g), "%s result stored through a projection in %s" % (g, short(b.npath)), where=c.where())
                continue
            uses = []
            seen = {dst["l"]}
            work = [dst["l"]]
            while work:
                l = work.pop()
                for bb, i, s2 in b.stmts():
                    if s2["k"] == "assign" and s2["rv"]["k"] in ("use", "ref", "cast") and not s2["dst"]["p"]:
                        op = s2["rv"].get("op") or {"k": "copy", "place": s2["rv"].get("place")}
                        pl = op.get("place") if op.get("k") in ("copy", "move") else None
                        if pl and pl["l"] == l and s2["dst"]["l"] not in seen:
                            seen.add(s2["dst"]["l"])
                            work.append(s2["dst"]["l"])
                for c2 in b.calls():
                    for ai, a in enumerate(c2.args):
                        if a["k"] in ("copy", "move") and a["place"]["l"] == l:
                            uses.append((c2.callee or "?", ai))
            bad = [u for u in uses if not (((u[0] in ("alloc::string::String::push_str",) or is_repeat_push_helper(prog, u[0])) and u[1] == 1)
                                           or (u[0].endswith("::repeat") and "str" in u[0] and u[1] == 0))]
            # measuring is tolerated when the number can only become a capacity hint
            if bad and all(u[0] == "core::str::len" for u in bad):
                esc = []
                for c2 in b.calls():
                    if c2.callee == "core::str::len" and any(a["k"] in ("copy", "move") and a["place"]["l"] in seen for a in c2.args):
                        d2 = c2.t.get("dst")
                        esc += _escapes_capacity_only(b, d2["l"]) if d2 and not d2["p"] else ["stored through a projection"]
                if not esc:
                    bad = []
                else:
                    bad = [("core::str::len -> " + e, 0) for e in esc]
            rep.check(bool(uses) and not bad, R, "getter-use:%s:%s" % (short(owner), g),
                      "in the emitter %s the result of %s is used by %s — an emitter may only append the configured string (widths are computed in LineWhitespace::len / nonbreaking_ws_len)" % (short(b.npath), g, sorted(set(bad)) or "nothing"),
                      where=c.where(), instance={"emitter": short(b.npath), "getter": g, "uses": sorted({u[0].split("::")[-1] for u in uses})})
    rep.floor(R, "getter calls inside the emitters", n, 5)


def line_comment_trailing_blanks(prog, rep, R):
    """C08.d — a line comment leaves format_line_comment without trailing blanks on every path: a path that does not replace the text is taken
    only when `trim_ascii_end` of the text (or of a suffix of it) has the same length as the untrimmed one; a path that replaces it either
    truncates the new text to its trim_ascii_end, ends it with a trimmed piece, or runs under that same equality."""
    import re as _re
    import slices
    b = prog.body("pasfmt_core::rules::comment_contents::format_line_comment")
    if not rep.check(b is not None, R, "anchor:format_line_comment", "format_line_comment not found"):
        return
    try:
        tb = Table(prog, b)
    except Exception as e:
        rep.fail(R, "line-comment-table", "format_line_comment is not a loop-free classifier any more: %s" % e)
        return

    def is_content(t):
        return t[0] == "call" and t[1].endswith("::get_content") and t[2] == (("arg", 1),)
    ev = slices.SliceEval(prog, b, is_content)
    # names of &str values that reach the end of the token's text (the text itself and its suffixes)
    reaches_end = set()
    # end trimmers that remove at least spaces and tabs (trim_ascii_end, trim_end, trim_end_matches(<predicate probed concretely>), helpers
    # returning one of these on their parameter): canonical name of the trimmed value -> canonical name of what was trimmed
    verdict = {}
    for c in b.calls():
        if not c.t.get("dst") or not c.args:
            continue
        fn = norm(c.t.get("resolved") or c.t.get("callee") or "?")
        term = ("call", fn, tuple(slices.t_operand(b, a, 0, (), c.bb) for a in c.args))
        verdict[fn] = verdict.get(fn, True) and slices.ascii_blank_end_trim(prog, term) is not None
    trimmer_callees = {fn for fn, ok in verdict.items() if ok}
    trim_names = {fn.split("::")[-1] for fn in trimmer_callees} - {fn.split("::")[-1] for fn, ok in verdict.items() if not ok}   # the table engine prints calls by their last path segment

    def trimmed_arg(x):
        """X if x is `<end trimmer>(X[, predicate])`"""
        sc = split_call(x)
        return sc[1][0] if sc and sc[0] in trim_names and len(sc[1]) in (1, 2) else None
    for c in b.calls():
        if (c.callee or "") in ("core::str::len", "core::str::is_empty") or norm(c.t.get("resolved") or c.t.get("callee") or "?") in trimmer_callees:
            t = slices.t_operand(b, c.args[0], 0, (), c.bb)
            sl = ev.slice(t)
            if sl is not None and slices.lin_eq(sl[1], ev.L):
                reaches_end.add(canon(b, c.args[0]))
    def split_call(x):
        """'F(a,b)' -> ('F', ['a', 'b']) with balanced parentheses / braces; None if x is not of that form"""
        i = x.find("(")
        if i <= 0 or not x.endswith(")"):
            return None
        name, body, args, depth, cur = x[:i], x[i + 1:-1], [], 0, ""
        for ch in body:
            if ch in "([{":
                depth += 1
            elif ch in ")]}":
                depth -= 1
            if ch == "," and depth == 0:
                args.append(cur)
                cur = ""
            else:
                cur += ch
        args.append(cur)
        return name, args

    def reaches(x, depth=0):
        """the &str named x (canonical name as printed by the table engine) is the token's text or a suffix of it"""
        if depth > 8:
            return False
        if x == "get_content(arg1)" or x in reaches_end:
            return True
        if x.endswith("@Some.0"):
            sc = split_call(x[:-7])
            return bool(sc) and sc[0] in ("strip_prefix", "strip_prefix_of") and reaches(sc[1][0], depth + 1)
        sc = split_call(x)
        if sc and sc[0] == "unwrap_or" and len(sc[1]) == 2:
            opt = split_call(sc[1][0])
            return bool(opt) and opt[0] == "strip_prefix" and reaches(opt[1][0], depth + 1) and reaches(sc[1][1], depth + 1)
        return False

    def trailing_test(key):
        """(op, X) if key is `Eq|Ne(len(trim_ascii_end(X)), len(X))` in either order"""
        sc = split_call(key)
        if not sc or sc[0] not in ("Eq", "Ne") or len(sc[1]) != 2:
            return None
        parts = [split_call(a) for a in sc[1]]
        if not all(p and p[0] == "len" and len(p[1]) == 1 for p in parts):
            return None
        inner = [p[1][0] for p in parts]
        for a, o in ((inner[0], inner[1]), (inner[1], inner[0])):
            if trimmed_arg(a) == o:
                return sc[0], o
        return None
    bad = []
    n = 0
    for (cons, _res), calls in zip(tb.rows, tb.calls):
        if any(c[0] == "is" and c[1].startswith("strip_prefix(get_content(arg1),") and c[2] == "None" for c in cons):
            continue            # not a `//` comment
        names = [nm.split("::")[-1] for nm, _ in calls]
        # infeasible: the option was filled by get_or_insert_with and is then found empty
        if "get_or_insert_with" in names and any(c[0] == "is" and c[2] == "None" and c[1].startswith("var:") for c in cons):
            continue
        n += 1
        no_trailing = False
        for c in cons:
            if c[0] != "cond":
                continue
            m = trailing_test(c[1])
            if m and reaches(m[1]):
                equal = (c[2] == 0) if m[0] == "Ne" else (c[2] != 0)
                no_trailing = no_trailing or equal
        if "set_content" not in names:
            if not no_trailing:
                bad.append(("keeps the old text", sorted(str(c[1])[:60] + "=" + str(c[2]) for c in cons if c[0] == "cond")))
            continue
        trunc = [a for nm, a in calls if nm.endswith("String::truncate")]
        def len_of_trimmed(x):
            sc = split_call(x)
            return bool(sc) and sc[0] == "len" and len(sc[1]) == 1 and trimmed_arg(sc[1][0]) is not None
        trimmed_by_truncate = any(a and len_of_trimmed(a[-1]) for a in trunc)
        pushes = [a for nm, a in calls if nm.endswith("String::push_str")]
        lt = pushes[-1][-1] if pushes else None
        # a text assembled in one go (`[a, b, c].concat()`): its last piece is what it ends with
        for nm, a in calls:
            if nm.split("::")[-1] in ("concat", "join") and nm.startswith("alloc::slice") and a and a[0].startswith("array{") and a[0].endswith("}"):
                els = split_call("f(" + a[0][len("array{"):-1] + ")")[1]
                lt = els[-1] if els else None
        last_trimmed = lt is not None and trimmed_arg(lt) is not None and reaches(trimmed_arg(lt)) and not trunc
        if not (no_trailing or trimmed_by_truncate or last_trimmed):
            bad.append(("replaces the text", sorted(str(c[1])[:60] + "=" + str(c[2]) for c in cons if c[0] == "cond")))
    rep.check(n >= 4 and not bad, R, "line-comment-ends-without-blanks", "%d of %d paths through format_line_comment can leave a line comment with trailing blanks; first: %s" % (len(bad), n, bad[:1]),
              where="%s:%d" % (b.file, b.line), instance={"paths": n, "end_trimmers": sorted(x.split("::")[-1] for x in trimmer_callees), "texts_reaching_the_end": sorted(reaches_end), "violating": [x[0] + ": " + "; ".join(x[1]) for x in bad[:3]]})


def _origin_is_bool(b, x):
    """an origin (of a u16 value reached through From::from / a cast) that is a boolean: the converted value is 0 or 1"""
    if x[0] == "const":
        return x[1] == "bool"
    if x[0] in ("unop", "binop") and len(x) >= 4 and isinstance(x[2], int):
        st = b.blocks[x[2]]["stmts"][x[3]]
        return st["k"] == "assign" and not st["dst"]["p"] and b.locals[st["dst"]["l"]]["ty"] == "bool"
    if x[0] == "call" and isinstance(x[1], int):
        t = b.blocks[x[1]]["term"]
        return t.get("k") == "call" and t.get("dst_ty") == "bool"
    return False


def first_token_invariant_is_enforced(prog, rep, R):
    """C08.k — "indentation is a multiple of the configured width": a token that has to start its line (the token after a `//` comment, a
    compiler directive ..) gets its line break from the wrapper; if the wrapper *continues* it, the reconstructor's safety net breaks
    the line and writes the token's inter-token blanks as indentation.  Every first decision of a line — of every child line, under
    every child-line option — is taken in find_optimal_solution, so that is where the invariant of the first token is enforced: before
    the root decision is built there is a give-up exit (Err) on a path decided by `invariant(first token) is MustBreak`.  (A check
    moved to the caller sees the first child line only.)"""
    b = prog.body(OLF + "InternalOptimisingLineFormatter::find_optimal_solution")
    if not rep.check(b is not None, R, "anchor:find_optimal_solution", "find_optimal_solution not found"):
        return
    stop = {c.bb for c in b.calls() if (c.callee or "").endswith("ParentPointerTree::new")}
    if not rep.check(len(stop) == 1, R, "anchor:root-decision", "the root decision of the search (ParentPointerTree::new) is not built at exactly one place: %d" % len(stop)):
        return
    from table import Table, TooComplex, render
    try:
        tb = Table(prog, b, start=0, stop=stop, inline=0, max_paths=20000)
    except TooComplex as e:
        rep.fail(R, "first-decision:table", "the prologue of find_optimal_solution can no longer be enumerated path by path: %s" % e)
        return
    gave_up, reached = 0, 0
    for (cons, res), end in zip(tb.rows, tb.ends):
        inv_mb = any(c[0] == "is" and "get_formatting_invariant(arg1,0," in str(c[1]) and c[2] == "MustBreak" for c in cons)
        if end is None and res is not None and render(res).startswith("Err(") and inv_mb:
            gave_up += 1
        if end is not None:
            reached += 1
    # the prologue may be a helper whose Err is `?`-propagated before the root decision is built: its own paths are read the same way
    from util import question_propagated
    stop_bb = next(iter(stop))
    for c in b.calls():
        hb = prog.body(norm(c.t.get("resolved") or c.callee or ""))
        if hb is None or not hb.npath.startswith(OLF) or hb.loops() or "Result<" not in hb.locals[0]["ty"] or not b.dominates(c.bb, stop_bb) or not question_propagated(b, c):
            continue
        try:
            th = Table(prog, hb, inline=0, max_paths=20000)
        except TooComplex:
            continue
        from util import enum_variants_mentioned
        consts = {v for _, v in enum_variants_mentioned(hb)}
        for cons, res in th.rows:
            if res is None or not render(res).startswith("Err("):
                continue
            by_match = any(c2[0] == "is" and "get_formatting_invariant(arg1,0," in str(c2[1]) and c2[2] == "MustBreak" for c2 in cons)
            # `invariant == Some(MustBreak)`: equality with a promoted constant of the helper that names the variant
            by_eq = any(c2[0] == "cond" and str(c2[1]).startswith("eq(get_formatting_invariant(arg1,0,") and "promoted[" in str(c2[1]) and c2[2] != 0 for c2 in cons) and "MustBreak" in consts
            if by_match or by_eq:
                gave_up += 1
    rep.check(gave_up >= 1 and reached >= 1, R, "first-token-MustBreak-can-give-up",
              "find_optimal_solution no longer gives up when the first token of the line must start a line and the first decision continues it (no Err exit decided by "
              "`get_formatting_invariant(0, line) is MustBreak` before the root decision): under ContinueAll a second or later child line that follows a `//` comment is continued, the "
              "reconstructor's safety net breaks the line and the token's blanks become an indentation that is not a multiple of the configured width",
              where="%s:%d" % (b.file, b.line), instance={"paths_to_root_decision": reached, "give_up_paths_on_MustBreak": gave_up})


def format_line_declines_only_by_line_type(prog, rep, R):
    """C08.l (= C06.k) — a line that format_line does not hand to the search keeps the line breaks and blank lines of the input (the search is
    the only place where they are clamped and where indentation is decided).  The only lines it declines are verbatim by type: on
    every path of format_line that returns without calling find_optimal_solution, the decision is a test of the line's *type*
    (`get_line_type() == AsmInstruction`) and nothing else — not a property of its tokens (ignored first token, length, depth ..): a
    line that only *starts* inside a `pasfmt off` region goes on behind the `on` comment, and that part is formatted code."""
    b = prog.body(OLF + "InternalOptimisingLineFormatter::format_line")
    if not rep.check(b is not None, R, "anchor:format_line", "format_line not found"):
        return
    stop = {c.bb for c in b.calls() if norm(c.t.get("resolved") or c.callee or "").endswith("::find_optimal_solution")}
    from util import family_calls
    if not stop:
        stop = {a for a, chain in family_calls(prog, b, lambda c: norm(c.t.get("resolved") or c.callee or "").endswith("::find_optimal_solution"), depth=2) if a is not None}
    if not rep.check(bool(stop), R, "anchor:format_line->search", "format_line does not call find_optimal_solution any more"):
        return
    from table import Table, TooComplex, render
    try:
        tb = Table(prog, b, start=0, stop=stop, inline=1, max_paths=8000)
    except TooComplex as e:
        rep.fail(R, "format_line:table", "the prologue of format_line can no longer be enumerated: %s" % e)
        return
    bad, declined, handed = [], 0, 0
    for (cons, res), end in zip(tb.rows, tb.ends):
        if end is not None:
            handed += 1
            continue
        declined += 1
        other = []
        for c in cons:
            t = str(c[1])
            if t.startswith("le(") or "max_level" in t:
                continue                                  # log-level tests
            if "get_line_type(" in t or re.search(r"\.line_type\b", t):
                continue
            other.append(t[:60])
        if other:
            bad.append(other[0])
    rep.check(not bad and handed >= 1, R, "declined-lines-are-verbatim-by-type",
              "format_line declines a line (returns without asking the search) on a path decided by %s, not by the line's type alone: such a line keeps the line breaks, blank lines and missing "
              "indentation of the input also where it is formatted code (behind a `pasfmt on` comment in the middle of the line)" % sorted(set(bad))[:2],
              where="%s:%d" % (b.file, b.line), instance={"declining_paths": declined, "paths_to_the_search": handed})


def returns_to_the_indifferent_decision_requeue_both(prog, rep, R):
    """C11.n — "a result that fits a narrower limit is also what the wider limit produces": the search collapses runs of `Indifferent`
    decisions into Continue and remembers the first of them; whenever it has to go back there (the collapsed line got too long, ran
    into a dead end, met several successors) it re-queues BOTH successors of the remembered decision.  Sibling agreement of the
    back-tracking sites: every call of the successor generator on the remembered decision with `Break` is paired with one with
    `Continue` at the same site.  A site that re-queues Break only explores less exactly when the text up to the forcing token fits —
    which depends on the limit: the wider limit then breaks a bracket group open that the narrower one keeps together."""
    b = prog.body(OLF + "InternalOptimisingLineFormatter::find_optimal_solution")
    if not rep.check(b is not None, R, "anchor:find_optimal_solution", "find_optimal_solution not found"):
        return
    GEN = OLF + "InternalOptimisingLineFormatter::get_potential_solution"

    def generator_calls(x):
        """[(call, decision, text of the node argument)] — the closure `get_solutions((D, node, stack))` or get_potential_solution(.., node, .., D, ..)"""
        out = []
        for c in x.calls():
            cal = c.callee or ""
            if "ops::function::Fn" in cal and cal.split("::")[-1] in ("call", "call_mut", "call_once") and len(c.args) >= 2:
                m = re.match(r"^tuple\{RawDecision::(Break|Continue)\{\},(.*)\}$", canon(x, c.args[1]))
                if m:
                    out.append((c, m.group(1), m.group(2)))
            elif norm(c.t.get("resolved") or cal) == GEN:
                texts = [canon(x, a2) for a2 in c.args]
                d = [re.match(r"^RawDecision::(Break|Continue)\{\}$", t) for t in texts]
                d = [m.group(1) for m in d if m]
                if len(d) == 1 and len(texts) >= 2:
                    out.append((c, d[0], texts[1]))
        return out
    sites = [(c, d) for c, d, node in generator_calls(b) if "indifference_line@Some.0" in node]
    # a helper that is handed the remembered decision: it has to generate both successors of its node parameter
    helper_sites, lonely = 0, []
    for c in b.calls():
        hb = prog.body(norm(c.t.get("resolved") or c.callee or ""))
        if hb is None or not hb.npath.startswith(OLF) or hb.npath in (b.npath, GEN) or hb.kind == "Closure":
            continue
        idx = [i for i, a2 in enumerate(c.args) if "indifference_line@Some.0" in canon(b, a2)]
        if not idx:
            continue
        per_param = {}
        for c2, d2, node2 in generator_calls(hb):
            for i in idx:
                if re.search(r"\barg%d\b" % (i + 1), node2):
                    per_param.setdefault(i, set()).add(d2)
        gens = set().union(*per_param.values()) if per_param else set()
        if gens == {"Break", "Continue"}:
            helper_sites += 1
        elif gens:
            lonely.append("%s only, in %s called @%s" % (sorted(gens)[0], short(hb.npath), c.where()))
    if not rep.check(len(sites) + 2 * helper_sites >= 2, R, "anchor:returns-to-the-indifferent-decision", "find_optimal_solution no longer re-queues the successors of the remembered indifferent decision (%d calls)" % len(sites)):
        return
    for c, d in sites:
        other = "Continue" if d == "Break" else "Break"
        if not any(d2 == other and (b.dominates(c.bb, c2.bb) or b.dominates(c2.bb, c.bb)) for c2, d2 in sites):
            lonely.append("%s only @%s" % (d, c.where()))
    rep.check(not lonely, R, "both-successors-at-every-return",
              "a back-tracking site of the search re-queues only one successor of the remembered indifferent decision (%s) while its siblings re-queue both: the layouts that keep the earlier "
              "groups together are then found only when another site (line too long) fires first, which depends on wrap_column" % lonely[:2],
              where=lonely and lonely[0].split("@")[-1] or None, instance={"return_calls": len(sites), "returns_through_a_helper": helper_sites, "unpaired": lonely[:3]})


def continuing_token_is_measured_from_the_last_child_line(prog, rep, R):
    """C11.o — a token that continues the line behind a token with child lines stands on the LAST child line (`end) do`), however long
    the parent token's own line is.  Where the position of the next token is computed (get_token_line_length, its closures and the
    helpers it calls) the previous line end is a *choice* — the last child line's end if there are child lines, otherwise the
    decision's own (`unwrap_or`, `match`) — and never the *larger* of the two: that maximum is right for the over-length test of the
    search (both lines have to fit) and wrong here, where it charges the continuing token an overflow it does not have, for limits
    between the two lengths only."""
    from util import family_bodies
    b = prog.body(OLF + "InternalOptimisingLineFormatter::get_token_line_length")
    if not rep.check(b is not None, R, "anchor:get_token_line_length", "get_token_line_length not found"):
        return
    TD = OLF + "types::TokenDecision"
    fam = [body for body, _a, _c in family_bodies(prog, b, depth=3) if body.npath.startswith(OLF) and not body.npath.endswith("::find_optimal_solution")]
    # the functions that look at a decision's child lines: get_last_child_line_len, or any helper that reads TokenDecision.child_solutions
    readers = {a2[0].npath for a2 in prog.field_accesses(TD, "child_solutions") if a2[3] in ("read", "ref")}
    child_fns = {x.npath.split("::")[-1] for x in fam if x.npath in readers or x.npath.endswith("::get_last_child_line_len")} | {"get_last_child_line_len"}
    bad, n = [], 0
    for body in fam:
        if body.npath in readers:
            n += 1
        for c in body.calls():
            nm = (c.callee or "").split("::")[-1]
            texts = [canon(body, a2) for a2 in c.args]
            child_side = [t for t in texts if any(h + "(" in t for h in child_fns) or "child_solutions" in t]
            if child_side:
                n += 1
                if nm in ("max", "max_by", "max_by_key", "fold", "reduce") and (len(texts) >= 2):
                    bad.append("%s: %s(%s)" % (short(body.npath), nm, ", ".join(t[:40] for t in texts)))
    rep.check(not bad, R, "last-child-line-replaces-the-parent-line",
              "the position of a token that continues behind child lines is computed from the larger of the parent token's line and the last child line (%s) instead of from the last child line: "
              "for limits between the two lengths the token is charged an overflow it does not have and the search picks another layout, although the result of the wider limit fits" % bad[:2],
              instance={"uses_of_the_last_child_line_length": n, "combined_by_maximum": bad[:3]})
    rep.floor(R, "places of the measuring family that look at a decision's child lines", n, 1)


def check_c08(prog, rep, tier, cfg):
    line_comment_trailing_blanks(prog, rep, "C08.d")
    # a gap nobody decides keeps the input's blank count: more than one space between two tokens on a line
    gap_coverage(prog, rep, "C08.e")
    line_list_traversals_are_complete(prog, rep, "C08.j")
    children_of_voided_lines_are_laid_out(prog, rep, "C08.f")
    consolidator_commits_atomically(prog, rep, "C08.i")
    first_token_invariant_is_enforced(prog, rep, "C08.k")
    format_line_declines_only_by_line_type(prog, rep, "C08.l")
    # C08.g — every blank of the input is scanned as leading whitespace (and so replaced by the decided counters): the scanner's blank
    # set is {<= U+0020, U+3000} and it stops only in front of a non-blank; a blank that is left over becomes an `Unknown` token and
    # is emitted as it is (shared with C13.b / C01.e)
    import lexer_rules as _lx
    _lx.blank_definition(prog, rep, "C08.g")
    _lx.blank_scanner_stops_only_at_non_blank(prog, rep, "C08.g")
    # C08.h — only what lies between `pasfmt off` and the `on` that ends it escapes the whitespace rules: one step of the toggle scan
    # marks an On comment iff a region was open (shared with C07.f)
    import text as _text
    from engine import AliasReport as _AR
    _text.check_c07(prog, _AR(rep, [("C07.f", r"^toggle:transition-table|^toggle:anchor|^anchor:FormattingToggler", "C08.h")]), tier, cfg)
    # ---------------------------------------------------------------- C08.a emission order and counter<->string pairing
    R = "C08.a"
    cl = prog.body(RCL)
    if rep.check(cl is not None, R, "anchor:reconstruct-closure", "reconstruct closure not found"):
        seq = foreach_pairs(prog, cl)
        counters = []
        for c, rng, src in seq:
            cnt = "newlines" if ("var:nls" in rng or "newlines_before" in rng) else ("indentations" if "indentations_before" in rng else ("continuations" if "continuations_before" in rng else ("spaces" if "spaces_before" in rng else rng)))
            counters.append((cnt, src))
        want = [("newlines", ["get_newline_str"]), ("indentations", ["get_indentation_str"]), ("continuations", ["get_continuation_str"]), ("spaces", ["' '"])]
        rep.check(counters == want, R, "AGREE:counter<->string", "reconstruct pairs counters with strings as %s (expected %s)" % (counters, want), instance={"pairs": [[a, b] for a, b in counters]})
        ok = len(seq) == 4 and all(cl.dominates(seq[i][0].bb, seq[i + 1][0].bb) for i in range(3))
        content = [c for c in cl.calls() if c.callee == "alloc::string::String::push_str" and "get_content(" in canon(cl, c.args[1])]
        ok &= len(content) == 1 and all(cl.can_reach_avoiding(s[0].bb, {content[0].bb}, set()) and not cl.can_reach_avoiding(content[0].bb, {s[0].bb}, set()) for s in seq)
        rep.check(ok, R, "ORDER:newlines<indent<continuation<spaces<content", "the emission order of the non-ignored arm changed", instance={"order": [a for a, _ in counters] + ["content"]})
        # `nls` is newlines_before or the constant 1 (safety net)
        for c, rng, src in seq[:1]:
            o = Origins(cl).of_operand(c.args[0])
    # ---------------------------------------------------------------- C08.b value sets of the counters
    R = "C08.b"
    allowed_sp_writers = ["<pasfmt_core::rules::eof_newline::EofNewline as pasfmt_core::traits::LogicalLineFormatter>::format", ZERO_FN,
                          "<pasfmt_core::rules::token_spacing::TokenSpacing as pasfmt_core::traits::LogicalLineFileFormatter>::format"]
    inventory(rep, R, "writers of spaces_before", writers(prog, FD, "spaces_before"), allowed_sp_writers, "spaces are decided by the spacing table, zeroed at line starts and at Eof")
    allowed_nl_writers = ["<pasfmt_core::rules::eof_newline::EofNewline as pasfmt_core::traits::LogicalLineFormatter>::format", OLF + "InternalOptimisingLineFormatter::reconstruct_solution"]
    inventory(rep, R, "writers of newlines_before", writers(prog, FD, "newlines_before"), allowed_nl_writers, "")
    for f in ("indentations_before", "continuations_before"):
        inventory(rep, R, "writers of " + f, writers(prog, FD, f), allowed_nl_writers, "")
    # values stored to newlines_before: 0, 1, clamp(_,1,2)
    n = 0
    for a in prog.field_accesses(FD, "newlines_before"):
        if not a[3].startswith("write") or a[2] == "term":
            continue
        b, bb, i, kind, s = a
        rv = s["rv"]
        from util import small_value_class, within
        vs = small_value_class(prog, b, rv)
        good = within(vs, 0, 2)
        desc = ",".join(sorted(map(str, vs)))
        n += 1
        rep.check(good, R, "newlines-value:%s:%s" % (short(b.npath).split("::")[-1], desc), "newlines_before is set to %s in %s (allowed: values within 0..2 — constants, clamp(old,1,2), or a helper whose every result is one of these)" % (desc, short(b.npath)),
                  where="%s:%d" % (b.file, abs(s.get("line", 0))), instance={"body": short(b.npath), "value": desc})
    rep.floor(R, "stores to newlines_before", n, 4)
    # values stored to spaces_before
    n = 0
    for a in prog.field_accesses(FD, "spaces_before"):
        if not a[3].startswith("write") or a[2] == "term":
            continue
        b, bb, i, kind, s = a
        rv = s["rv"]
        n += 1
        if rv["k"] == "use" and rv["op"]["k"] == "const":
            rep.check(rv["op"].get("int") in (0, 1), R, "spaces-value:%s:const" % short(b.npath).split("::")[-1], "spaces_before is set to the constant %s" % rv["op"].get("int"),
                      instance={"body": short(b.npath), "value": rv["op"].get("int")})
        else:
            o = Origins(b).of_operand(rv["op"]) if rv["k"] == "use" else set()
            names = {x[2] for x in o if x[0] == "call"}

            def from_table(body, origs, depth=0):
                """the value comes from the spacing table functions, Some/None of such a value or a 0 / 1 constant — also through the parameter of
                a private helper of the spacing module (`set_spaces_before(tokens, index, value)`), judged at each of its call sites"""
                if not origs:
                    return False
                for x in origs:
                    if (x[0] == "call" and x[2].startswith(TS)) or (x[0] == "agg" and x[3] in ("adt:core::option::Option::Some", "adt:core::option::Option::None")) \
                            or (x[0] == "const" and x[1] == "int" and x[2] in (0, 1)):
                        continue
                    if x[0] == "param" and depth < 2 and body.npath.startswith(TS) and body.kind != "Closure":
                        sites = [c for c in prog.who_calls(body.npath) if c.body.crate.startswith("pasfmt")]
                        if sites and all(c.body.npath.startswith(TS) or c.body.npath.startswith("<" + TS) for c in sites) and \
                                all(len(c.args) >= x[1] and from_table(c.body, Origins(c.body).of_operand(c.args[x[1] - 1]), depth + 1) for c in sites):
                            continue
                    return False
                return True
            ok = from_table(b, o)
            rep.check(ok, R, "spaces-value:%s:table" % short(b.npath).split("::")[-1], "spaces_before is set from %s (allowed: results of the spacing table functions)" % sorted(map(str, o)),
                      instance={"body": short(b.npath), "value_from": sorted(short(x) for x in names)})
    rep.floor(R, "stores to spaces_before", n, 5)
    # every Option<u16> produced by the spacing table holds 0, 1, min(old,1) or the `spaces` parameter (always passed 0/1)
    nsome = 0
    param_fns = set()
    for k, b in prog.bodies.items():
        if not k.startswith(TS):
            continue
        og = Origins(b)
        for bb, i, s in b.stmts():
            if s["k"] == "assign" and s["rv"]["k"] == "aggregate" and s["rv"].get("variant") == "Some" and norm(s["rv"].get("adt", "")) == "core::option::Option":
                op = s["rv"]["ops"][0]
                ty = op.get("ty") if op["k"] == "const" else b.locals[op["place"]["l"]]["ty"]
                if ty != "u16":
                    continue
                nsome += 1
                o = og.of_operand(op)
                good = bool(o)
                for x in o:
                    if x[0] == "const" and x[1] == "int" and x[2] in (0, 1):
                        continue
                    if x[0] == "call" and x[2] == "core::cmp::Ord::min":
                        t = b.blocks[x[1]]["term"]
                        if t["args"][1]["k"] == "const" and t["args"][1].get("int") == 1:
                            continue
                    if x[0] == "param":
                        param_fns.add((k, x[1]))
                        continue
                    if _origin_is_bool(b, x):
                        continue            # `u16::from(cond)` / `cond as u16`: 0 or 1
                    good = False
                rep.check(good, R, "table-some:%s:%s" % (short(k), sorted(map(str, o))), "the spacing table can produce a space count other than 0, 1 or min(old,1) in %s: %s" % (short(k), sorted(map(str, o))),
                          where="%s:%d" % (b.file, abs(s.get("line", 0))), instance={"fn": short(k), "payload": sorted(str(x[2]) if x[0] == "const" else x[0] for x in o)})
    for (k, pi) in sorted(param_fns):
        for c in prog.who_calls(k):
            a = c.args[pi - 1]
            ok = a["k"] == "const" and a.get("int") in (0, 1)
            if not ok and a["k"] in ("copy", "move"):
                o = Origins(c.body).of_operand(a)
                ok = bool(o) and all(x[0] == "const" and x[2] in (0, 1) for x in o)
            rep.check(ok, R, "table-param:%s<-%s" % (short(k), short(c.body.npath)), "%s is called with a space count other than 0/1 from %s" % (short(k), short(c.body.npath)), where=c.where(),
                      instance={"fn": short(k), "caller": short(c.body.npath)})
    rep.floor(R, "Some(u16) results in the spacing table", nsome, 20)
    # ---------------------------------------------------------------- C08.c line-start space zeroing after *all* wrapping
    zeroing_after_wrapping(prog, rep, "C08.c")
    R = "C08.c"
    of = prog.body(OLF_FMT)
    # the first token of the file never keeps leading spaces: unconditional `spaces_before = 0` for index 0
    tsf = prog.body("<pasfmt_core::rules::token_spacing::TokenSpacing as pasfmt_core::traits::LogicalLineFileFormatter>::format")
    if rep.check(tsf is not None, R, "anchor:TokenSpacing::format", "TokenSpacing::format not found"):
        from panic import dominating_conditions
        st0 = []
        for a in prog.field_accesses(FD, "spaces_before", within={tsf.npath}):
            if a[3].startswith("write") and a[4]["rv"]["k"] == "use" and a[4]["rv"]["op"].get("int") == 0:
                st0.append(a)
        ok = len(st0) == 1
        if ok:
            bb = st0[0][1]
            facts = [(f[0], f[2]) for f in dominating_variant_facts(prog, tsf, bb) if f[1] == "is" and not (f[0].startswith("next(") and f[2] == ("None",))]
            conds = dominating_conditions(tsf, bb)
            ok = facts == [("get_formatting_data_mut(arg2,0)", ("Some",))] and not conds and not any(bb in L for L in tsf.loops().values())
            # and it is the last thing the function does: every path to return passes it or its None edge
        rep.check(ok, R, "first-token-spaces-zeroed-unconditionally", "TokenSpacing::format no longer zeroes the spaces before the first token of the file unconditionally (guards: %s)"
                  % ([(f[0], f[2]) for f in dominating_variant_facts(prog, tsf, st0[0][1]) if f[1] == "is"] if st0 else "store missing"),
                  instance={"store": "get_formatting_data_mut(0).spaces_before = 0", "guard": "Some only"})
    # ---------------------------------------------------------------- C08.d end-of-file rule
    R = "C08.d"
    ef = prog.body("<pasfmt_core::rules::eof_newline::EofNewline as pasfmt_core::traits::LogicalLineFormatter>::format")
    if rep.check(ef is not None, R, "anchor:EofNewline", "EofNewline::format not found"):
        vals = {}
        for f in ("newlines_before", "spaces_before", "indentations_before", "continuations_before"):
            for a in prog.field_accesses(FD, f, within={ef.npath}):
                if a[3].startswith("write"):
                    vals[f] = a[4]["rv"]["op"].get("int")
        rep.check(vals == {"newlines_before": 1, "spaces_before": 0, "indentations_before": 0, "continuations_before": 0}, R, "eof=(1,0,0,0)", "EofNewline stores %s" % vals, instance={"stores": vals})
        ev = [v for a, v in enum_variants_mentioned(ef)]
        cl2 = [v for b2 in prog.closures_of(ef.npath) for a, v in enum_variants_mentioned(b2)]
        idx = [c for c in ef.calls() if c.callee in (LANG + "FormattedTokens::get_token_type_for_index", LANG + "FormattedTokens::get_formatting_data_mut")]
        inner = [c for b2 in prog.closures_of(ef.npath) for c in b2.calls() if c.callee == LANG + "FormattedTokens::get_formatting_data_mut"]
        ok = len(idx) == 1 and canon(ef, idx[0].args[1]) == "Sub(len(arg2),1)" and len(inner) == 1
        if ok:
            o2 = Origins(inner[0].body).of_operand(inner[0].args[1])
            ok = all(x[0] == "upvar" and "eof_index" in x[2] for x in o2) and bool(o2)
        rep.check(ok, R, "eof-index=len-1", "EofNewline does not address the last token (len - 1)")
        sw = [b2 for b2 in prog.closures_of(ef.npath)]
        tests_eof = any(any(t["k"] == "switch" and any(prog.variant_of(LANG + "TokenType", v) == "Eof" for v, _ in t["targets"]) for t in (b2.blocks[x]["term"] for x in b2.reachable())) for b2 in sw)
        rep.check(tests_eof, R, "eof-only-on-Eof-token", "EofNewline is no longer conditional on the token being Eof")
    sel = prog.body("pasfmt::make_formatter::{closure#0}")
    if rep.check(sel is not None, R, "anchor:selector-closure", "FormatterSelector closure in make_formatter not found"):
        t = Table(prog, sel)
        rows = [(tuple(c for c in cons), render(res)) for cons, res in t.rows]
        good = len(rows) == 2
        for cons, r in rows:
            is_eof = any(c[0] == "is" and c[2] == "Eof" for c in cons)
            good &= (is_eof and r.startswith("Some(")) or (not is_eof and r == "None")
        rep.check(good, R, "selector:Eof=>EofNewline-only", "the formatter selector maps line types as %s (expected Eof => Some(eof formatter), everything else => None)" % rows, instance={"rows": [r for _, r in rows]})
    if of is not None:
        flt = [b2 for b2 in prog.closures_of(of.npath) if any(v == "Eof" for a, v in enum_variants_mentioned(b2))]
        ok_f = len(flt) == 1 and any((c.callee or "") == "core::cmp::PartialEq::ne" for c in flt[0].calls())
        if not ok_f:
            # .. or a test in the loop itself: every wrapping call of the first pass runs under `line type != Eof`
            from panic import dominating_conditions as _dc2
            first_pass = [c for c in wrapping_calls(prog, of)][:1]
            for c in first_pass:
                for cd in _dc2(of, c.bb):
                    if cd[0] == "call" and "LogicalLineType as core::cmp::PartialEq" in cd[1] and ((cd[1].endswith("::eq") and cd[3] is False) or (cd[1].endswith("::ne") and cd[3] is True)):
                        if any(any(x[0] == "const" and str(x[2]).endswith("Eof") for x in Origins(of).of_operand(a)) for a in cd[2]):
                            ok_f = True
        rep.check(ok_f, R, "wrapper-skips-Eof-lines", "the wrapper's line filter no longer excludes Eof lines")
    # ---------------------------------------------------------------- C08.e indentation strings
    R = "C08.e"
    rs_new_table(prog, rep, R)


def rs_new_facts(prog):
    """What ReconstructionSettings::new builds, whatever it is split into: {(LineEnding variant, newline literal)}, the constants
    used as indentation unit, the repetition sites with the origin of their counts.  Family = new, its closures, and functions of
    pasfmt_core::lang called from there (with their closures)."""
    nb = prog.body(RS + "::new")
    if nb is None:
        return None
    fam = [nb] + [x for x in prog.bodies.values() if x.npath.startswith(nb.npath + "::")]
    helpers = {}
    for c in nb.calls():
        tgt = norm(c.t.get("resolved") or c.callee or "")
        cb = prog.body(tgt)
        if cb is not None and tgt.startswith(LANG) and not cb.loops() and tgt in helpers:
            helpers[tgt].append(c)
        elif cb is not None and tgt.startswith(LANG) and cb not in fam and not cb.loops():
            helpers.setdefault(tgt, []).append(c)
            fam.append(cb)
            fam += [x for x in prog.bodies.values() if x.npath.startswith(cb.npath + "::")]
            for c2 in cb.calls():
                t2 = norm(c2.t.get("resolved") or c2.callee or "")
                cb2 = prog.body(t2)
                if cb2 is not None and t2.startswith(LANG) and cb2 not in fam and not cb2.loops():
                    fam.append(cb2)
    t = Table(prog, nb, inline=2)
    pairs, kinds = set(), set()
    for cons, res in t.rows:
        le = [c[2] for c in cons if c[0] == "is" and c[1] == "arg1"]
        tk = [c[2] for c in cons if c[0] == "is" and c[1] == "arg2"]
        kinds.add((le[0] if le else "?", tk[0] if tk else "?"))
        if res.kind == "agg" and res.a[2]:
            nl = res.a[2][0]
            pairs.add((le[0] if le else "?", nl.a[1] if nl.kind == "const" and isinstance(nl.a, tuple) else str(nl.a)))
    consts = set()
    for x in fam:
        for bb, i, st in x.stmts():
            if st["k"] == "assign":
                for op in _rv_operands(st["rv"]):
                    if op["k"] == "const" and ("str" in op or "char" in op):
                        consts.add(op["str"] if "str" in op else (op["char"] if isinstance(op["char"], str) else chr(op["char"])))
        for c in x.calls():
            for a in c.args:
                if a["k"] == "const" and ("str" in a or "char" in a):
                    consts.add(a["str"] if "str" in a else (a["char"] if isinstance(a["char"], str) else chr(a["char"])))
    reps = []
    for x in fam:
        for c in x.calls():
            cal = c.callee or ""
            cnt = None
            if cal == "alloc::str::repeat":
                cnt = c.args[1]
            elif cal.endswith("Iterator::take") and any(y[0] == "call" and y[2].split("::")[-1] == "repeat" for y in Origins(x).of_operand(c.args[0])):
                cnt = c.args[1]
            elif cal.split("::")[-1] in ("repeat_n",):
                cnt = c.args[1]
            if cnt is None:
                continue
            o = Origins(x, extra_identity={"core::convert::Into::into", "core::convert::From::from"}).of_operand(cnt)
            ok = bool(o) and all(y[0] in ("param", "upvar") for y in o)
            why = sorted(str(y[2]).split("::")[-1] if y[0] == "call" else y[0] for y in o)
            if ok and x.npath in helpers:
                # the helper's count parameter must itself be handed a width parameter of `new`, unmodified
                ks = {y[1] for y in o if y[0] == "param"}
                for site in helpers[x.npath]:
                    for k in ks:
                        if k - 1 < len(site.args):
                            o2 = Origins(nb, extra_identity={"core::convert::Into::into", "core::convert::From::from"}).of_operand(site.args[k - 1])
                            if not o2 or not all(y[0] == "param" for y in o2):
                                ok = False
                                why = ["at the call of %s: " % short(x.npath)] + sorted(str(y[2]).split("::")[-1] if y[0] == "call" else y[0] for y in o2)
            reps.append((short(x.npath), ok, why))
    # number of strings built by repetition: direct sites in `new`, or call sites of a helper that repeats
    built = 0
    for x in fam:
        own = [r for r in reps if r[0] == short(x.npath)]
        if not own:
            continue
        built += len(own) if x.npath == nb.npath or x.npath.startswith(nb.npath + "::") else len(own) * len(helpers.get(x.npath, [])) or len(own)
    return {"body": nb, "pairs": pairs, "kinds": kinds, "consts": consts, "reps": reps, "built": built}


def rs_new_table(prog, rep, R):
    f = rs_new_facts(prog)
    if not rep.check(f is not None, R, "anchor:ReconstructionSettings::new", "ReconstructionSettings::new not found"):
        return None
    nb = f["body"]
    want_kinds = {("Crlf", "Soft"), ("Crlf", "Hard"), ("Lf", "Soft"), ("Lf", "Hard")}
    rep.check(f["kinds"] == want_kinds and f["pairs"] == {("Crlf", "\r\n"), ("Lf", "\n")}, R, "new:four-cases",
              "ReconstructionSettings::new no longer distinguishes exactly {Crlf,Lf} x {Soft,Hard} with the newline literals \\r\\n / \\n: cases %s, newline %s" % (sorted(f["kinds"]), sorted(map(repr, f["pairs"]))),
              instance={"cases": sorted(map(str, f["kinds"])), "newline": sorted(map(repr, f["pairs"]))})
    # the two strings are the unit repeated exactly indent_width / continuation_width times: the widths reach the repetition unmodified
    # (a clamp / max / arithmetic on them means something else for tabs than for blanks, and changes what 0 means)
    bad = ["%s: repeat count from %s" % (r[0], r[2]) for r in f["reps"] if not r[1]]
    rep.check(f["built"] == 2 and not bad, R, "new:widths-unmodified", "ReconstructionSettings::new does not repeat the indent character exactly indent_width / continuation_width times: %s" % (bad or "%d strings built by repetition" % f["built"]),
              where="%s:%d" % (nb.file, nb.line), instance={"strings_built_by_repetition": f["built"], "count_origins": "the width parameters, unmodified"})
    return sorted(f["kinds"])


# =========================================================================== C09

def newline_use_discipline(prog, rep, R):
    """The configured newline string is only appended (emitters) or measured by its length (cursor code): it never decides anything."""
    sites = [c for c in prog.who_calls(RS + "::get_newline_str") if c.body.crate.startswith("pasfmt") and nondebug(c.body.npath)]
    allowed = {RCL: "push", RECON: "push", "pasfmt_core::rules::optimising_line_formatter::multiline_strings::StringFormatter::try_rewrite_string": "push",
               "pasfmt_core::defaults::reconstructor::DelphiLogicalLinesReconstructor::ws_len": "len", "pasfmt_core::defaults::reconstructor::DelphiLogicalLinesReconstructor::nl_len": "len"}
    for c in sites:
        base = c.body.npath
        root = base if base in allowed else (base.split("::{closure")[0] + "::{closure#0}" if base.startswith(RCL) else base)
        how = allowed.get(base) or (allowed.get(RCL) if base.startswith(RCL) else None)
        if not rep.check(how is not None, R, "who-calls:get_newline_str:" + short(base), "get_newline_str is used in %s" % short(base), where=c.where()):
            continue
        # the result is only pushed / measured
        dst = c.t["dst"]["l"]
        users = []
        og = Origins(c.body)
        for c2 in c.body.calls():
            if c2.bb == c.bb:
                continue
            for a in c2.args:
                if a["k"] in ("copy", "move") and any(x[0] == "call" and x[1] == c.bb for x in og.of_operand(a)):
                    users.append(c2.callee)
        okset = {"alloc::string::String::push_str"} if how == "push" else {"core::str::len"}
        if how == "push":
            okset |= {u for u in users if is_repeat_push_helper(prog, u)}
        rep.check(set(users) <= okset and users, R, "newline-str-use:%s" % short(base), "the newline string is used by %s in %s (allowed: %s)" % (users, short(base), sorted(okset)), where=c.where(),
                  instance={"body": short(base), "use": sorted(set(u.split("::")[-1] for u in users))})
    rep.floor(R, "get_newline_str call sites", len(sites), 5)
    fr = sorted({a[0].npath for a in prog.field_accesses(RS, "newline_str") if nondebug(a[0].npath)})
    inventory(rep, R, "readers of ReconstructionSettings.newline_str", fr, [RS + "::get_newline_str", "<pasfmt_core::lang::ReconstructionSettings as core::clone::Clone>::clone"], "only the getter hands out the configured line ending")
    gb = prog.body(RS + "::get_newline_str")
    if gb is not None:
        rep.check(canon(gb, {"k": "copy", "place": {"l": 0, "p": []}}) in ("arg1.newline_str",), R, "getter-returns-field", "get_newline_str does not return self.newline_str")


# token kinds whose text can contain a line break (the lexer's block scanners and the multi-line literal scanner)
MULTILINE_CAPABLE = [("TextLiteral", "MultiLine"), ("Comment", "MultilineBlock"), ("CompilerDirective", None), ("ConditionalDirective", None)]


def last_line_measurers(prog):
    """M-functions: bodies of the wrapper that look at the last line (`lines()`, a search for '\n') of a token under a token-type test"""
    from progress import dominating_variant_facts
    mfun = set()

    def cuts_lines(b3, depth=0, seen=()):
        """b3 (with its closures and the workspace functions it calls) looks for line ends in a text: `lines()`, or a search / split for '\n'"""
        fam = [b3] + [x for x in prog.bodies.values() if x.npath.startswith(b3.npath + "::")]
        for x in fam:
            for c in x.calls():
                cal = c.callee or ""
                if cal == "core::str::lines":
                    return True
                if cal.startswith("core::str::") and cal.split("::")[-1] in ("rfind", "find", "rsplit", "split", "rsplit_once", "split_once", "rsplit_terminator", "split_terminator", "split_inclusive", "rmatch_indices", "match_indices") \
                        and any(a["k"] == "const" and (a.get("char") == 10 or a.get("int") == 10 or a.get("str") == "\n") for a in c.args[1:]):
                    return True
                if cal.startswith("memchr::") and any(a["k"] == "const" and a.get("int") == 10 for a in c.args):
                    return True
                cb3 = prog.body(c.resolved or cal)
                if cb3 is not None and cb3.crate.startswith("pasfmt") and depth < 2 and cb3.npath not in seen and cb3.npath != b3.npath:
                    if cuts_lines(cb3, depth + 1, seen + (b3.npath,)):
                        return True
        return False
    for b2 in prog.bodies.values():
        if not b2.npath.startswith(OLF):
            continue
        for c in b2.calls():
            cal = c.callee or ""
            if not c.args or "get_content(" not in canon(b2, c.args[0]):
                continue
            cb2 = prog.body(c.resolved or cal)
            if not (cal == "core::str::lines" or (cb2 is not None and cb2.crate.startswith("pasfmt") and cuts_lines(cb2))):
                continue
            fx = dominating_variant_facts(prog, b2, c.bb)
            if any("get_token_type(" in f[0] and "TextLiteral" in f[2] for f in fx):
                mfun.add(b2.npath)
    return mfun


def line_spanning_kinds_measured(prog, rep, R):
    """C11.k — "if the result for a wider wrap_column already fits within a narrower one, the narrower value gives the identical
    result": the width the wrapper assumes after a token that spans lines is the width of its last line."""
    mfun = last_line_measurers(prog)
    if not rep.check(len(mfun) >= 1, R, "anchor:last-line-measure", "no function of the wrapper measures the last line of a multi-line token any more"):
        return
    # sibling completeness: every kind of token that can contain a line break is measured by its last line.  The lexer's block scanners
    # (block comments and `{$..}` / `(*$..*)` directives) accept line breaks inside the token, and so do multi-line string literals.
    measured = set()
    for m in sorted(mfun):
        mb = prog.body(m)
        try:
            tm = Table(prog, mb, inline=0)
        except TooComplex:
            continue
        for cons, res in tm.rows:
            if render(res) == "None" or render(res).startswith("call:from_residual"):
                continue
            outer = [c[2] for c in cons if c[0] == "is" and "get_token_type(" in str(c[1]) and str(c[1]).endswith(")")]
            inner = [c[2] for c in cons if c[0] == "is" and "get_token_type(" in str(c[1]) and re.search(r"\)@\w+\.0$", str(c[1]))]
            for o in outer:
                measured.add((o, inner[0] if inner else None))
    missing = [k for k in MULTILINE_CAPABLE if k not in measured and (k[0], None) not in measured]
    rep.check(not missing, R, "every-line-spanning-kind-is-measured-by-its-last-line" if not missing else "line-spanning-kinds-measured-whole:" + "+".join(k[0] + ("(%s)" % k[1] if k[1] else "") for k in missing),
              "token kinds that can contain a line break but are measured by their whole length (all lines and their terminators counted as one line): %s — `Foo(aaaa, {$I⏎ x.inc} bbbb);` is laid out "
              "as if the directive were 13 columns wide: it is wrapped at a wrap_column its own one-line result fits in, and differently for CRLF and LF inside the directive" % [("%s(%s)" % k if k[1] else k[0]) for k in missing],
              instance={"measured_by_last_line": sorted("%s(%s)" % k if k[1] else k[0] for k in measured), "line_spanning_kinds": ["%s(%s)" % k if k[1] else k[0] for k in MULTILINE_CAPABLE]})



def multiline_measure(prog, rep, R):
    """Whole-token lengths never measure a multi-line token: the column after such a token is the length of its last line (`lines()`)."""
    TL = OLF + "TokenLength"
    # ---------------------------------------------------------------- C09.e whole-token lengths never measure a multi-line token
    from progress import dominating_variant_facts
    mfun = last_line_measurers(prog)
    rep.check(len(mfun) >= 1, R, "anchor:last-line-measure", "no function of the wrapper measures the last line of a multi-line token any more", instance={"last_line_measurers": sorted(short(m) for m in mfun)})

    def override_sites(b2):
        out = []
        for c in b2.calls():
            tg = {c.callee, c.resolved}
            if tg & mfun:
                out.append(c)
                continue
            for a in c.args:
                if a["k"] in ("copy", "move") and not a["place"]["p"]:
                    clos = b2.locals[a["place"]["l"]].get("closure")
                    cb = prog.body(norm(clos)) if clos else None
                    if cb is not None and (cb.npath in mfun or any({x.callee, x.resolved} & mfun for x in cb.calls())):
                        out.append(c)
        return out
    nread = 0
    for (b2, bb, i, kind, s2) in prog.field_accesses(TL, "content"):
        if kind not in ("read", "ref") or not nondebug(b2.npath):
            continue
        nread += 1
        ms = override_sites(b2)
        dominated = any(b2.dominates(m.bb, bb) for m in ms)
        must_after = bool(ms) and not b2.can_reach_avoiding(bb, set(b2.return_blocks()), {m.bb for m in ms})
        rep.check(dominated or must_after, R, "override:" + short(b2.npath),
                  "%s reads a token's whole content length (which counts every line of a multi-line literal and its line-ending bytes) without consulting the last-line measure of multi-line tokens %s — "
                  "a line starting with a multi-line string is then wrapped differently under line_ending=crlf and lf" % (short(b2.npath), sorted(short(m) for m in mfun)),
                  where="%s:%d" % (b2.file, abs(s2.get("line", 0)) if isinstance(s2, dict) else 0), instance={"reader": short(b2.npath), "override": "dominating" if dominated else "on every path to return"})
    rep.floor(R, "reads of TokenLength.content", nread, 2)


def _rv_ops(rv):
    return [o for o in (rv.get("op"), rv.get("a"), rv.get("b")) if isinstance(o, dict)] + [o for o in rv.get("ops", []) if isinstance(o, dict)]


def check_c09(prog, rep, tier, cfg):
    R = "C09.a"
    nb = prog.body(RS + "::new")
    if rep.check(nb is not None, R, "anchor:ReconstructionSettings::new", "ReconstructionSettings::new not found"):
        f = rs_new_facts(prog)
        pairs = f["pairs"]
        rep.check(pairs == {("Crlf", "\r\n"), ("Lf", "\n")}, R, "AGREE:LineEnding<->literal", "ReconstructionSettings::new maps line endings to %s" % sorted(map(repr, pairs)), instance={"pairs": sorted(map(repr, pairs))})
        # indentation unit: one blank char chosen by TabKind, repeated; no other text constant takes part in building the three strings
        units = {c for c in f["consts"] if c not in ("\r\n", "\n")}
        ok = units == {" ", "\t"} and f["built"] == 2 and all(r[1] for r in f["reps"])
        rep.check(ok, R, "indent-strings=repeat(unit,width)", "indentation/continuation strings are not repeat(' ' | '\\t', width): unit constants %s, strings built by repetition %d" % (sorted(map(repr, units)), f["built"]),
                  instance={"unit": [" ", "\\t"], "widths": ["indent_width", "continuation_width"]})
    mk = set()
    for k, b in prog.bodies.items():
        if b.crate.startswith("pasfmt"):
            for bb, i, s in b.stmts():
                if s["k"] == "assign" and s["rv"]["k"] == "aggregate" and norm(s["rv"].get("adt", "")) == RS:
                    mk.add(k)
    rep.check({m for m in mk if "core::clone::Clone" not in m} == {RS + "::new"}, R, "settings-constructed-only-in-new", "ReconstructionSettings is constructed in %s" % sorted(short(m) for m in mk), instance={"makers": sorted(short(m) for m in mk)})
    for f in ("newline_str", "indentation_str", "continuation_str"):
        w = writers(prog, RS, f)
        rep.check(not w, R, "no-writer:" + f, "ReconstructionSettings.%s is mutated in %s" % (f, [short(x) for x in w]))
    # no CR/LF constant is appended to any string in the formatting pipeline
    bad = []
    n_pat = 0
    for k, b in prog.bodies.items():
        if b.crate != "pasfmt_core.lib" or not nondebug(k):
            continue
        og = None
        for c in b.calls():
            cal = c.callee or ""
            appends = cal in ("alloc::string::String::push_str", "alloc::string::String::push", "alloc::string::String::insert", "alloc::string::String::insert_str",
                              "alloc::str::repeat", "alloc::slice::join", "alloc::slice::concat", "alloc::str::replace", "alloc::str::replacen") or cal.endswith("Extend::extend") or cal.endswith("Add::add") or cal.endswith("AddAssign::add_assign")
            has_nl = False
            for a in c.args:
                if a["k"] == "const" and (("str" in a and ("\n" in a["str"] or "\r" in a["str"])) or a.get("char") in (10, 13)):
                    has_nl = True
                elif a["k"] in ("copy", "move") and appends:
                    og = og or Origins(b)
                    for x in og.of_operand(a):
                        if x[0] == "const" and ((x[1] == "str" and ("\n" in x[2] or "\r" in x[2])) or (x[1] == "char" and x[2] in (10, 13))):
                            has_nl = True
            if has_nl:
                if appends and k != RS + "::new":
                    bad.append(c)
                else:
                    n_pat += 1
    rep.check(not bad, R, "no-CR/LF-literal-appended", "a CR/LF literal is appended to a string outside ReconstructionSettings::new: %s" % [(short(c.body.npath), c.callee) for c in bad],
              where=bad[0].where() if bad else None, instance={"pattern_or_log_uses": n_pat})
    rep.floor(R, "CR/LF constants used as patterns (split/contains/rfind/trim/memchr/log)", n_pat, 10)
    # ---------------------------------------------------------------- C09.b who uses the newline string, and how
    newline_use_discipline(prog, rep, "C09.b")
    no_effect_behind_a_short_circuit(prog, rep, "C09.j")
    # ---------------------------------------------------------------- C09.d the wrapper's cached content lengths follow the normalised text
    R = "C09.d"
    of = prog.body(OLF_FMT)
    TL = OLF + "TokenLength"
    if rep.check(of is not None, R, "anchor:OLF::format", "OptimisingLineFormatter::format not found"):
        from panic import dominating_conditions
        from util import family_calls, family_bodies
        FMS = OLF + "multiline_strings::StringFormatter::format_multiline_strings"
        fms = family_calls(prog, of, lambda c: (c.callee or "") == FMS)
        fls = wrapping_calls(prog, of)
        mk_cl = [b2 for b2 in prog.closures_of(of.npath) if tl_content_values(prog, b2)]
        # the refresh: a store into a cached TokenLength.content in `format`, in a closure of it or in a helper they call
        fam = family_bodies(prog, of)
        stores = []
        for body, anchor, chain in fam:
            for bb, val in tl_content_stores(prog, body):
                stores.append((body, bb, val, anchor, chain))
        ok = len(fms) == 1 and len(fls) == 2 and len(mk_cl) == 1
        good = False
        if ok:
            for body, bb, val, anchor, chain in stores:
                # behind `format_multiline_strings(..) == true`: at the store itself or at one of the calls that lead down to it
                levels = [(body, bb)] + [(b3, c3.bb) for b3, c3 in chain]
                after_rewrite = any(any(c[0] == "call" and c[1].endswith("format_multiline_strings") and c[3] is True for c in dominating_conditions(b3, bb3)) for b3, bb3 in levels)
                from_content = "len(get_content(" in val and "get_token(" in val
                in_token_loop = any(bb in L and any((c.callee or "").endswith("Iterator::next") and "get_tokens(" in canon(body, c.args[0]) for c in body.calls() if c.bb in L) for L in body.loops().values())
                at = bb if anchor is None else anchor
                reflow = [f for f in fls if of.can_reach_avoiding(at, {f.bb}, set()) and not of.can_reach_avoiding(f.bb, {at}, set())]
                if after_rewrite and from_content and in_token_loop and reflow:
                    good = True
        rep.check(ok and good, R, "lengths-refreshed-after-string-rewrite",
                  "the content lengths cached before wrapping are not re-read (len(get_content())) for the tokens of a line whose multi-line strings were rewritten, before that line is re-flowed — "
                  "a literal with CRLF interior breaks is then measured longer than the same literal with LF, so CRLF and LF inputs wrap differently (and the result is not a fixpoint)",
                  where="%s:%d" % (of.file, of.line), instance={"cache": "InternalOptimisingLineFormatter.token_lengths", "refresh": "token_length.content = token.get_content().len()", "stores_found": len(stores)})
    multiline_measure(prog, rep, "C09.e")
    # ---------------------------------------------------------------- C09.f the lexer treats CR and LF alike wherever a line end can end a token
    R = "C09.f"
    LXP = "pasfmt_core::defaults::lexer::"
    nlf = 0
    for b2 in prog.bodies.values():
        if not b2.npath.startswith(LXP):
            continue
        for bb in sorted(b2.reachable()):
            t = b2.blocks[bb]["term"]
            if t["k"] == "switch":
                tg = dict(t["targets"])
                if 10 in tg or 13 in tg:
                    nlf += 1
                    rep.check(10 in tg and 13 in tg and tg[10] == tg[13], R, "switch:%s" % short(b2.npath),
                              "a byte dispatch in %s handles %s but not both CR and LF in the same way — with CRLF input the other byte ends up inside (or outside) the token, so CRLF and LF inputs give different tokens"
                              % (short(b2.npath), sorted(k for k in tg if k in (10, 13))), where="%s:%d" % (b2.file, abs(t.get("line", 0))), instance={"in": short(b2.npath), "dispatch": sorted(tg)})
        for c in b2.calls():
            if not (c.callee or "").startswith("memchr::"):
                continue
            needles = {a.get("int") for a in c.args if a["k"] == "const"}
            if 10 not in needles and 13 not in needles:
                continue
            nlf += 1
            if 10 in needles and 13 in needles:
                rep.ok(R, {"in": short(b2.npath), "search": sorted(needles)})
                continue
            # only one of them: tolerated when the result is used as presence only (classification), never as a position
            dst = c.t.get("dst")
            uses = []
            if dst and not dst["p"]:
                alias = {dst["l"]}
                grew = True
                while grew:
                    grew = False
                    for bb2, i2, s2 in b2.stmts():
                        if s2["k"] != "assign" or s2["dst"]["p"] or s2["dst"]["l"] in alias:
                            continue
                        rv2 = s2["rv"]
                        src = rv2["place"]["l"] if rv2["k"] == "ref" and not [p for p in rv2["place"]["p"] if p["k"] != "deref"] else \
                            (rv2["op"]["place"]["l"] if rv2["k"] == "use" and rv2["op"]["k"] in ("copy", "move") and not rv2["op"]["place"]["p"] else None)
                        if src in alias:
                            alias.add(s2["dst"]["l"])
                            grew = True
                for c2 in b2.calls():
                    for a in c2.args:
                        if a["k"] in ("copy", "move") and a["place"]["l"] in alias:
                            uses.append((c2.callee or "?").split("::")[-1])
                for bb2, i2, s2 in b2.stmts():
                    if s2["k"] != "assign":
                        continue
                    if not s2["dst"]["p"] and s2["dst"]["l"] in alias:
                        continue      # the alias definitions themselves
                    if any(o["k"] in ("copy", "move") and o["place"]["l"] in alias for o in _rv_ops(s2["rv"])) or (s2["rv"]["k"] in ("ref", "discr") and s2["rv"]["place"]["l"] in alias):
                        uses.append("stmt:" + s2["rv"]["k"])
                for bb2 in b2.reachable():
                    t2 = b2.blocks[bb2]["term"]
                    if t2["k"] == "switch" and t2["discr"]["k"] in ("copy", "move") and t2["discr"]["place"]["l"] in alias:
                        uses.append("switch")
            presence_only = bool(uses) and all(u in ("is_some", "is_none") for u in uses)
            rep.check(presence_only, R, "search:%s" % short(b2.npath), "%s searches for %s only and uses the position found (%s) — a CRLF line end then leaves the CR inside the token" % (short(b2.npath), sorted(needles & {10, 13}), uses),
                      where=c.where(), instance={"in": short(b2.npath), "search": sorted(needles), "use": "presence only"})
    rep.floor(R, "line-end tests in the lexer", nlf, 5)
    # ---------------------------------------------------------------- C09.g in files mode a file is left alone only if it is byte-for-byte what would be written
    import orch
    orch.unchanged_skip_is_exact(prog, rep, "C09.g")
    # C09.h — the interior lines of a multi-line string are cut at CR, LF and CRLF alike, whatever preceded (the splitter's transition
    # table; shared with C12.e): a terminator that is not recognised stays raw in the output under every line_ending
    import strings as _strings
    from engine import AliasReport
    _strings.check_c12(prog, AliasReport(rep, [("C12.e", r".", "C09.h")]), tier, cfg)
    # C09.i — the only tokens that are emitted with the input's line breaks are the ones of verbatim lines: the AsmInstruction type does
    # not leak from an empty line onto the tokens collected next (shared with C07.j)
    import text as _text
    _text.finished_line_type_does_not_survive(prog, rep, "C09.i")
    # C09.m — where a line comment ends is decided by a search for LF *and* CR (a comment that runs over a lone CR carries it into the output
    # under every line_ending): the closed inventory of the lexer's terminator searches (shared with C13.e)
    import lexer_rules as _lxr9
    _lxr9.c13e(prog, AliasReport(rep, [("C13.e", r".", "C09.m")]))
    # C09.l — the line breaks of the input reach the output only in front of ignored tokens: the emission step reads a token's original
    # whitespace only under is_ignored() (shared with C06.e) — a "copy it if it already looks right" path compares lengths, not bytes
    if not getattr(rep, "_c09_alias_c06", False):
        ar6 = AliasReport(rep, [("C06.e", r".", "C09.l")])
        ar6._c09_alias_c06 = True
        check_c06(prog, ar6, tier, cfg)
    # C09.k — a token that is marked as verbatim is written with the line breaks of the input in front of it, so only what lies inside
    # an open `pasfmt off` region is marked: one step of the toggle scan marks an On comment iff a region was open (shared with C07.f)
    _text.check_c07(prog, AliasReport(rep, [("C07.f", r"^toggle:transition-table|^toggle:anchor|^anchor:FormattingToggler", "C09.k")]), tier, cfg)
    # ---------------------------------------------------------------- C09.c config enum mapping
    R = "C09.c"
    cv = [b for k, b in prog.bodies.items() if b.crate == "pasfmt.lib" and "LineEnding" in k and k.endswith("::from")]
    if rep.check(len(cv) == 1, R, "anchor:LineEnding-conversion", "conversion front-end LineEnding -> core LineEnding not found"):
        t = Table(prog, cv[0])
        m = {}
        for cons, res in t.rows:
            src = [c[2] for c in cons if c[0] == "is"]
            m[src[0] if src else "?"] = render(res)
        rep.check(m == {"Crlf": "Crlf", "Lf": "Lf", "Native": "Lf"}, R, "line-ending-mapping", "front-end line_ending maps to core as %s (expected Crlf->Crlf, Lf->Lf, Native->Lf on this platform)" % m, instance={"mapping": m})
    rd = readers(prog, FC, "line_ending")
    inventory(rep, R, "readers of FormattingConfig.line_ending", rd, [CONV_RS, DOCS] + SERDE, "")


# =========================================================================== C10

def same_settings_rule(prog, rep, R):
    """The wrapper (which measures widths and re-indents multi-line strings) and the reconstructor (which emits indentation)
    are built from one ReconstructionSettings value: shared by C10.b and C12.f."""
    mf = prog.body("pasfmt::make_formatter")
    if rep.check(mf is not None, R, "anchor:make_formatter", "make_formatter not found"):
        on = mf.calls_to(OLF + "OptimisingLineFormatter::new")
        rn = mf.calls_to("pasfmt_core::defaults::reconstructor::DelphiLogicalLinesReconstructor::new")
        ok = len(on) == 1 and len(rn) == 1
        if ok:
            a = canon(mf, on[0].args[1])
            b = canon(mf, rn[0].args[0])
            ok = a == "clone(%s)" % b and b.startswith("into(arg1") or (a.startswith("clone(") and b in a)
        rep.check(ok, R, "same-settings-for-measure-and-emit", "the wrapper and the reconstructor are not built from the same ReconstructionSettings value", instance={"wrapper": "reconstruction_settings.clone()", "reconstructor": "reconstruction_settings"})



CONV_RS = "pasfmt::<impl core::convert::From<&pasfmt::FormattingConfig> for pasfmt_core::lang::ReconstructionSettings>::from"
CONV_OLF = "pasfmt::<impl core::convert::From<&pasfmt::FormattingConfig> for pasfmt_core::rules::optimising_line_formatter::OptimisingLineFormatterSettings>::from"
DOCS = "<pasfmt::FormattingConfig as pasfmt_orchestrator::command_line::Configuration>::docs"
def mul_pairs(prog, b, depth=1):
    """(factor, factor) of every multiplication in b and — one level deep — in the workspace helpers it calls (an extracted width helper)"""
    out = []
    for bb, i, s in b.stmts():
        if s["k"] == "assign" and s["rv"]["k"] == "binop" and s["rv"]["op"] in ("Mul", "MulWithOverflow"):
            out.append(tuple(sorted((canon(b, s["rv"]["a"]), canon(b, s["rv"]["b"])))))
    if depth:
        for c in b.calls():
            cb = prog.body(c.target or "")
            if cb is not None and cb.crate == b.crate and cb.npath != b.npath and (cb.npath.rsplit("::", 1)[0] == b.npath.rsplit("::", 1)[0] or cb.npath.startswith(b.npath + "::")):
                # the helper's factors are its parameters: what the call passes for them (`width(self.indentations, get_indentation_str())`)
                sub = {"arg%d" % (i + 1): canon(b, a) for i, a in enumerate(c.args)}
                for x, y in mul_pairs(prog, cb, depth - 1):
                    out.append(tuple(sorted(re.sub(r"\barg(\d+)\b", lambda m: sub.get(m.group(0), m.group(0)), f) for f in (x, y))))
    return sorted(out)


def measured_indentation_pairs_counters_with_their_strings(prog, rep, R):
    """C10.c (measure part) = C11.p — the width the wrapper assumes for a line's leading whitespace is `indentations x the configured
    indentation string + continuations x the configured continuation string`: exactly two products, each counter with its own string.  A
    continuation counted as a fixed number of indentation levels measures right only under the default continuation_indents; with any other
    value a continued line is taken to fit when it sticks out (or the reverse), and which width wraps further is no longer monotone."""
    lw = prog.body(OLF + "types::LineWhitespace::len")
    if rep.check(lw is not None, R, "anchor:LineWhitespace::len", "LineWhitespace::len not found"):
        mp = mul_pairs(prog, lw)
        ok = len(mp) == 2 and any("indentations" in a + b and "get_indentation_str" in a + b for a, b in mp) and any("continuations" in a + b and "get_continuation_str" in a + b for a, b in mp) \
            and not any(("continuations" in a + b and "get_indentation_str" in a + b) or ("indentations" in a + b and "get_continuation_str" in a + b) for a, b in mp)
        rep.check(ok, R, "AGREE:measure-width", "LineWhitespace::len pairs counters and strings as %s" % mp, instance={"pairs": mp})


SERDE = ["<pasfmt::_::deserialize::__Visitor as serde::de::Visitor>::visit_map", "<pasfmt::_::deserialize::__Visitor as serde::de::Visitor>::visit_seq",  # derived: default for a missing field
         "pasfmt::_::<impl serde::ser::Serialize for pasfmt::FormattingConfig>::serialize"]  # derived Serialize under the __demo feature


def _conversion_rows_normalised(rows):
    """The rows of the conversion's decision table as (constraints, rendered result), up to identities that do not depend on the form the
    code is written in: a row whose constraint says that a *constant* variant is another variant (`Soft is Hard`: a match on a value built
    two lines above, the correlation of the two matches) is infeasible and dropped; `checked_mul(x, 1)` is `Some(x)` (its None row is
    dropped); the pair of rows `checked_mul(a, b) is Some -> ..@Some.0` / `is None -> 255` in a u8 position is `saturating_mul(a, b)`."""
    out = []
    for cons, res in rows:
        r = render(res)
        if any(c[0] == "is" and re.fullmatch(r"[A-Z][A-Za-z0-9]*", str(c[1])) and str(c[1]) != str(c[2]) for c in cons):
            continue
        if any(c[0] == "is" and re.fullmatch(r"checked_mul\([^()]*,1\)", str(c[1])) and c[2] == "None" for c in cons):
            continue
        r = re.sub(r"checked_mul\(([^()]*),1\)@Some\.0", r"\1", r)
        cons = [c for c in cons if not (c[0] == "is" and (re.fullmatch(r"[A-Z][A-Za-z0-9]*", str(c[1])) or re.fullmatch(r"checked_mul\([^()]*,1\)", str(c[1]))))]
        out.append((cons, r))
    merged, used = [], set()
    for i, (ci, ri) in enumerate(out):
        if i in used:
            continue
        some = [c for c in ci if c[0] == "is" and str(c[1]).startswith("checked_mul(") and c[2] == "Some"]
        hit = None
        if len(some) == 1:
            key = str(some[0][1])
            rest_i = [c for c in ci if c is not some[0]]
            for j, (cj, rj) in enumerate(out):
                none = [c for c in cj if c[0] == "is" and str(c[1]) == key and c[2] == "None"]
                if j != i and j not in used and len(none) == 1 and [c for c in cj if c is not none[0]] == rest_i and ri.replace(key + "@Some.0", "255") == rj:
                    hit = j
                    break
            if hit is not None:
                used.add(hit)
                merged.append((rest_i, ri.replace(key + "@Some.0", "saturating_mul(" + key[len("checked_mul("):])))
                continue
        merged.append((ci, ri))
    return merged


def check_c10(prog, rep, tier, cfg):
    # C10.d — whether a literal had to be re-indented (which depends on the indentation settings and on the source) must not change from
    # which line its logical line is wrapped (shared with C03.i)
    reflow_root_is_first_pass_root(prog, rep, "C10.d")
    # C10.e — "at unconstrained width": the limit the user sets reaches the wrapper unchanged (no cap, no default): a capped limit makes
    # the wrapping of a very long line depend on how wide its indentation is measured, i.e. on use_tabs / tab_width (shared with C11.a)
    if not getattr(rep, "_c10_alias_c11", False):
        from engine import AliasReport as _AR10
        ar = _AR10(rep, [("C11.a", r".", "C10.e")])
        ar._c10_alias_c11 = True
        check_c11(prog, ar, tier, cfg)
    R = "C10.a"
    for f in ("use_tabs", "tab_width", "continuation_indents"):
        inventory(rep, R, "readers of FormattingConfig." + f, readers(prog, FC, f), [CONV_RS, DOCS] + SERDE, "indentation options are interpreted at exactly one conversion site")
    cv = prog.body(CONV_RS)
    if rep.check(cv is not None, R, "anchor:conversion", "From<&FormattingConfig> for ReconstructionSettings not found"):
        t = Table(prog, cv, inline=2, opaque=("new", "into", "from"))          # the per-component computations may live in small helpers of the configuration type
        trows = _conversion_rows_normalised(t.rows)
        good = len(trows) == 2
        rows = []
        for cons, r in trows:
            ut = [c[2] for c in cons if c[0] == "cond" and "use_tabs" in c[1]]
            r = re.sub(r"(call:|sym:)?saturating_mul\((place:)?(arg1\.continuation_indents),1\)", r"\3", r)      # x.saturating_mul(1) == x
            rows.append((ut, r))
            if ut and ut[0] == 0:
                good &= "Soft" in r and "arg1.tab_width" in r and "saturating_mul(arg1.continuation_indents,arg1.tab_width)" in r
            else:
                good &= "Hard" in r and ",1," in r.replace(" ", "") and "arg1.continuation_indents" in r and "saturating_mul" not in r
        rep.check(good, R, "conversion-table", "use_tabs/tab_width/continuation_indents are converted as %s" % rows,
                  instance={"soft": "(tab_width, continuation_indents*tab_width saturating, Soft)", "hard": "(1, continuation_indents, Hard)"})
    # ---------------------------------------------------------------- C10.b one settings value feeds wrapper and reconstructor
    R = "C10.b"
    same_settings_rule(prog, rep, R)
    # ---------------------------------------------------------------- C10.c counter<->string pairing in every width computation
    R = "C10.c"
    nb = prog.body("pasfmt_core::defaults::reconstructor::DelphiLogicalLinesReconstructor::nonbreaking_ws_len")
    if rep.check(nb is not None, R, "anchor:nonbreaking_ws_len", "nonbreaking_ws_len not found"):
        mp = mul_pairs(prog, nb)
        ok = len(mp) == 2 and any("continuations_before" in a + b and "get_continuation_str" in a + b for a, b in mp) and any("indentations_before" in a + b and "get_indentation_str" in a + b for a, b in mp) \
            and not any(("continuations_before" in a + b and "get_indentation_str" in a + b) or ("indentations_before" in a + b and "get_continuation_str" in a + b) for a, b in mp)
        rep.check(ok, R, "AGREE:cursor-width", "nonbreaking_ws_len pairs counters and strings as %s" % mp, instance={"pairs": mp})
    measured_indentation_pairs_counters_with_their_strings(prog, rep, R)
    # reconstruct and try_rewrite_string pair them through for_each closures (checked in C08.a / C12.d); here: who calls the string getters
    for g, okb in (("get_indentation_str", None), ("get_continuation_str", None)):
        cs = sorted({c.body.npath.split("::{closure")[0] for c in prog.who_calls(RS + "::" + g) if c.body.crate.startswith("pasfmt") and nondebug(c.body.npath)})
        inventory(rep, R, "users of " + g, cs, [RECON, "pasfmt_core::rules::optimising_line_formatter::multiline_strings::StringFormatter::try_rewrite_string",
                                                 "pasfmt_core::defaults::reconstructor::DelphiLogicalLinesReconstructor::nonbreaking_ws_len",
                                                 "pasfmt_core::defaults::reconstructor::DelphiLogicalLinesReconstructor::ws_len", OLF + "types::LineWhitespace::len"], "emit / measure / cursor only")
    # the strings are reachable only through their getters (whose users are inventoried above)
    for f, g in (("indentation_str", "get_indentation_str"), ("continuation_str", "get_continuation_str")):
        fr = sorted({a[0].npath for a in prog.field_accesses(RS, f) if nondebug(a[0].npath)})
        inventory(rep, R, "readers of ReconstructionSettings." + f, fr, [RS + "::" + g, "<pasfmt_core::lang::ReconstructionSettings as core::clone::Clone>::clone"], "only the getter hands out the configured string")
    tr = prog.body("pasfmt_core::rules::optimising_line_formatter::multiline_strings::StringFormatter::try_rewrite_string")
    if rep.check(tr is not None, R, "anchor:try_rewrite_string", "try_rewrite_string not found"):
        prs = repeat_pairs(prog, tr)
        want = [("indentations", ["get_indentation_str"]), ("continuations", ["get_continuation_str"])]
        rep.check(prs == want, R, "AGREE:rewrite-width", "try_rewrite_string re-indents interior lines with %s (expected %s: one configured string per counter unit)" % (prs, want), instance={"pairs": [[a, b] for a, b in prs]})
    getter_use_discipline(prog, rep, R)
    import layout as _self
    _self.rs_new_table(prog, rep, R)


# =========================================================================== C11

def _rewrite_flag_as_fold(prog, rep, R, b):
    """The same flag written as a fold: `tokens.iter().fold(false, |changed, idx| step(idx) | changed)` where `step` returns true exactly on
    the paths that replace a token's text.  (`|` evaluates both sides; with `||` or `any` the step would not run once the flag is true.)
    Returns False when the function does not have this form (the caller then reports the loop form's anchors)."""
    folds = [c for c in b.calls() if (c.callee or "") == "core::iter::traits::iterator::Iterator::fold" and len(c.args) == 3]
    if len(folds) != 1:
        return False
    f = folds[0]
    ret = canon(b, {"k": "copy", "place": {"l": 0, "p": []}})
    src = canon(b, f.args[0])
    clos = b.locals[f.args[2]["place"]["l"]].get("closure") if f.args[2]["k"] in ("copy", "move") else None
    cb = prog.body(norm(clos)) if clos else None
    if cb is None or not ret.startswith("fold(") or "get_tokens(" not in src:
        return False
    init_false = f.args[1]["k"] == "const" and f.args[1].get("bool") is False
    adapters = re.findall(r"([A-Za-z_][A-Za-z_0-9]*)\(", src)
    whole = all(a in KEEPS_EVERY_ELEMENT + ("get_tokens", "deref") for a in adapters)
    try:
        tc = Table(prog, cb, inline=0)
    except TooComplex:
        return False
    bad = []
    step = None
    for (cons, res), calls in zip(tc.rows, tc.calls):
        r = render(res)
        if r in ("place:arg2", "arg2") and not any(n.endswith("Token::set_content") for n, _ in calls):
            continue                                  # a path without a step (an ignored token ..) hands the accumulator on unchanged
        m = re.match(r"^sym:(BitOr|Or)\((.*)\)$", r)
        if not m:
            bad.append("the fold's closure is not `step(..) | accumulator` on every path: %s" % r[:80])
            continue
        if m.group(1) != "BitOr":
            bad.append("the accumulator is combined with a short-circuiting `||`")
        parts = m.group(2)
        if not (parts.endswith(",arg2") or parts.startswith("arg2,")):
            bad.append("the accumulator is not one of the two operands: %s" % parts[:80])
        sm = re.search(r"([A-Za-z_][A-Za-z_0-9]*)\(", parts)
        step = sm.group(1) if sm else None
    sb = None
    for c in cb.calls():
        cal = prog.body(c.resolved or c.callee or "")
        if cal is not None and cal.crate.startswith("pasfmt") and cal.npath.split("::")[-1] == step:
            sb = cal
    nre = 0
    if sb is None:
        bad.append("the per-token step of the fold was not found")
    else:
        try:
            ts = Table(prog, sb, inline=0, opaque=("try_rewrite_string",))
            for (cons, res), calls in zip(ts.rows, ts.calls):
                rewrote = any(n.endswith("Token::set_content") for n, _ in calls)
                nre += 1 if rewrote else 0
                if rewrote and render(res) != "True":
                    bad.append("a path of the step that replaces a token's text returns %s" % render(res)[:40])
        except TooComplex as e:
            bad.append("the per-token step is not a loop-free classifier: %s" % e)
    rep.check(init_false and whole and not bad and nre >= 1, R, "rewrite-flag-is-sticky-and-complete",
              "the flag returned by format_multiline_strings is not (false initially, true after every step that replaced a token's text, never reset): %s"
              % (bad[:3] or ("initial value / traversal: fold(%s, %s)" % (src[:60], canon(b, f.args[1])))), where="%s:%d" % (b.file, b.line),
              instance={"form": "fold", "step": step, "paths_with_a_rewrite": nre})
    return True


def rewrite_is_reported(prog, rep, R):
    """format_multiline_strings returns a flag that is false initially, is set to true on every path on which a token's text was replaced,
    and is never reset: otherwise a line whose string changed is not measured and wrapped again."""
    b = prog.inlined(OLF + "multiline_strings::StringFormatter::format_multiline_strings", keep=("try_rewrite_string", "lines_custom", "get_token_mut", "get_token", "set_content", "get_content"))
    if not rep.check(b is not None, R, "anchor:format_multiline_strings", "format_multiline_strings not found"):
        return
    sc = b.calls_to("pasfmt_core::lang::Token::set_content")
    ret = [d for d in b.defs.get(0, []) if d[0] == "assign"]
    flag = None
    for d in ret:
        rv = d[3]["rv"]
        if rv["k"] == "use" and rv["op"]["k"] in ("copy", "move") and not rv["op"]["place"]["p"]:
            flag = rv["op"]["place"]["l"]
    if (not sc or flag is None) and _rewrite_flag_as_fold(prog, rep, R, b):
        return
    if not rep.check(len(sc) >= 1 and flag is not None and b.locals[flag]["ty"] == "bool", R, "anchor:rewrite-flag", "format_multiline_strings does not return a bool flag / never calls set_content"):
        return
    loops = b.loops()
    L = set().union(*loops.values()) if loops else set()
    stores = [d for d in b.defs.get(flag, []) if d[0] == "assign"]
    init = [d for d in stores if d[1] not in L]

    def cval(d):
        rv = d[3]["rv"]
        return rv["op"].get("bool") if rv["k"] == "use" and rv["op"]["k"] == "const" else None
    ok_init = len(init) == 1 and cval(init[0]) is False
    # transition of the flag over one iteration of the loop over the line's tokens, path by path: true after a path that replaced a
    # token's text, unchanged (or true) otherwise — whatever the stores look like (`flag = true`, `flag |= helper(..)`, ..)
    outer = [(h, Lp) for h, Lp in loops.items() if all(s2.bb in Lp for s2 in sc)]
    if not rep.check(ok_init and len(outer) >= 1, R, "anchor:rewrite-loop", "the rewrite flag is not initialised to false once / set_content is not inside the loop over the tokens (initial %s)" % [cval(d) for d in init]):
        return
    h, Lp = max(outer, key=lambda x: len(x[1]))
    nxt = [c for c in b.calls() if c.callee == "core::iter::traits::iterator::Iterator::next" and c.bb in Lp and b.dominates(c.bb, sc[0].bb)]
    some = None
    if nxt:
        tt = b.blocks[nxt[0].t["target"]]["term"]
        if tt["k"] == "switch":
            some = ([tb_ for v, tb_ in tt["targets"] if v == 1] or [tt["otherwise"]])[0]
    if not rep.check(some is not None, R, "anchor:rewrite-loop-step", "the step of the loop over the line's tokens could not be identified"):
        return
    try:
        tb = Table(prog, b, start=some, stop={h}, state=[flag], inline=0)
    except TooComplex as e:
        rep.fail(R, "rewrite-flag-table", "one iteration of format_multiline_strings is not a loop-free classifier: %s" % e)
        return
    flagname = "var:" + (b.locals[flag].get("name") or "tmp")
    bad = []
    nre = 0
    for (cons, res), calls in zip(tb.rows, tb.calls):
        rewrote = any(n.endswith("Token::set_content") for n, _ in calls)
        nre += 1 if rewrote else 0
        if res.kind != "agg" or res.a[0] != "state":
            if rewrote:
                bad.append("returns from inside the loop after a rewrite")
            continue
        out = res.a[2][0]
        after = out.a if out.kind == "const" else ("same" if out.kind == "place" and out.a == flagname else render(out))
        if rewrote and after is not True:
            bad.append("a path that replaces a token's text leaves the flag %s" % after)
        if not rewrote and after not in (True, "same"):
            bad.append("a path without a rewrite sets the flag to %s (a rewrite reported by an earlier token is lost)" % after)
    rep.check(not bad and nre >= 1, R, "rewrite-flag-is-sticky-and-complete",
              "the flag returned by format_multiline_strings is not (false initially, true after every iteration that replaced a token's text, never reset): %s" % bad[:3], where="%s:%d" % (b.file, b.line),
              instance={"flag": b.locals[flag].get("name"), "paths_of_one_iteration": len(tb.rows), "paths_with_a_rewrite": nre})


def alternatives_are_not_narrowed(prog, rep, R):
    """C11.i — "if every line fits at some wrap_column, every line fits at any larger one": where the wrapper finds two layouts for the
    child lines of a token (continued behind the parent token / on lines of their own), both go on the search heap and the line as a
    whole decides between them — the cheaper child layout can leave no room for what follows it on the parent's line.  Outside the
    combinators of `Potentials` (which drop an alternative only when its mapping failed) no `Potentials::One` / `None` is built on a
    path that knows a `Potentials` value to be `Two`: that is a choice between the two made before the rest of the line is costed."""
    PT = OLF + "types::Potentials"
    n = 0
    bad = []
    for b2 in sorted(prog.bodies.values(), key=lambda x: x.npath):
        if not b2.npath.startswith(OLF) or b2.npath.startswith(PT + "::") or b2.npath.startswith("<" + PT) or not nondebug(b2.npath):
            continue
        for bb, i, st in b2.stmts():
            if st["k"] == "assign" and st["rv"]["k"] == "aggregate" and norm(st["rv"].get("adt", "")) == PT:
                n += 1
                if st["rv"].get("variant") not in ("One", "None"):
                    continue
                fx = [f for f in dominating_variant_facts(prog, b2, bb) if f[1] == "is" and tuple(f[2]) == ("Two",)]
                if fx:
                    bad.append((b2, st, fx[0][0]))
    rep.check(not bad, R, "two-layouts-both-reach-the-search",
              "%s builds Potentials::%s on a path where %s is known to hold two alternatives: one of two layouts is chosen before the rest of the line is costed (the cheaper child layout "
              "can make the parent's line overflow although the other would fit)" % ((short(bad[0][0].npath), bad[0][1]["rv"].get("variant"), bad[0][2][:80]) if bad else ("", "", "")),
              where="%s:%d" % (bad[0][0].file, abs(bad[0][1].get("line", 0))) if bad else None, instance={"potentials_built": n, "narrowing_sites": len(bad)})
    rep.floor(R, "Potentials values built in the wrapper", n, 15)


def search_prunes_by_penalty_alone(prog, rep, R):
    """C11.j — "if every line fits at some wrap_column then every line also fits at any larger one": the search may discard a partial
    layout only when nothing later can make it the better one.  find_optimal_solution keeps, per token at which a break is required,
    the lowest penalty seen so far in a table, and drops every partial layout that arrives there with a higher one — comparing
    penalties only, not the state the rest of the line depends on (whether a child layout is still open on the parent's line).  Each
    such table is a place where the layout that fits is thrown away in favour of a cheaper prefix whose rest overflows; the number
    of tables is the reviewed quantity."""
    fos = prog.body(OLF_SEARCH)
    if not rep.check(fos is not None, R, "anchor:find_optimal_solution", "find_optimal_solution not found"):
        return
    tables = {}
    for b2 in [fos] + list(prog.closures_of(OLF_SEARCH)):
        for bb, i, st in b2.stmts():
            if st["k"] == "assign" and st["rv"]["k"] == "binop" and st["rv"]["op"] in ("Gt", "Lt", "Ge", "Le"):
                a, c = canon(b2, st["rv"]["a"]), canon(b2, st["rv"]["b"])
                for x, y in ((a, c), (c, a)):
                    m = re.match(r"^index\((from_elem\(.*?\)),", y)
                    if m and ("penalty" in x or "into_iter(" in x):
                        tables.setdefault(m.group(1), []).append(abs(st.get("line", 0)))
    n = len(tables)
    rep.analysed["penalty_tables"] = {k[:80]: v for k, v in tables.items()}
    if n:
        rep.fail(R, "penalty-only-pruning:%d-table%s" % (n, "" if n == 1 else "s"),
                 "find_optimal_solution discards partial layouts by comparing their penalty with the best one seen at the same required break (%d table%s, compared at lines %s): the layout "
                 "whose rest fits can be dropped for a cheaper one whose rest overflows, so a line that fits at one wrap_column overflows at a larger one"
                 % (n, "" if n == 1 else "s", sorted(l for v in tables.values() for l in v)), where="%s:%d" % (fos.file, fos.line))
    else:
        rep.ok(R, {"penalty_tables": 0})


# readers of TokenDecision.last_line_length that may ignore the decision's own child lines, with the reason
LAST_LINE_READERS_REVIEWED = {
    "find_optimal_child_lines_solution": "threads the running length from one child line to its next SIBLING: several child lines are continued on one line only in "
                                         "variant-record field lists, where a child line that is followed by a sibling ends in `;` (a token without child lines)",
    "<FormattingSolution as From>::from": "solution_length is informational (never compared with the limit)",
}


def line_end_follows_child_lines(prog, rep, R):
    """C11.m — "if every line fits at some wrap_column, every line fits at any larger one": where a line really ends.  A token's decision
    records the length of the line after the token (`last_line_length`) and the layouts of its child lines (`child_solutions`); when the
    token has child lines, the line that the next token continues on is the last of THOSE (recursively).  Every function of the wrapper
    that reads a decision's last_line_length as the place where the line goes on therefore also looks at that same decision's
    child_solutions — otherwise the width of what follows is measured from the wrong line.  [defect #37]"""
    TD = OLF + "types::TokenDecision"
    from table import canon_place
    n = 0
    bad = []
    for (b, bb, i, kind, st) in prog.field_accesses(TD, "last_line_length"):
        if kind not in ("read", "ref") or not nondebug(b.npath) or "core::clone::Clone" in b.npath or "core::cmp::PartialEq" in b.npath:
            continue
        n += 1
        fam = {b.npath} | {x.npath for x in prog.closures_of(b.npath)}
        partners = [a for a in prog.field_accesses(TD, "child_solutions", within=fam) if a[3] in ("read", "ref")]
        if partners:
            continue
        label = [k for k in LAST_LINE_READERS_REVIEWED if k.split("::")[0].strip("<").split(" ")[0] in b.npath]
        if not label:
            # a private helper of a reviewed reader (its loop over the sibling child lines extracted) is part of it
            root_fn = OLF + "InternalOptimisingLineFormatter::find_optimal_child_lines_solution"
            if b.npath in helper_closure(prog, {b.npath}, {root_fn}):
                label = ["find_optimal_child_lines_solution"]
        if label:
            rep.exception(R, "reviewed-reader:%s" % label[0], LAST_LINE_READERS_REVIEWED[label[0]])
            continue
        bad.append(b)
    rep.check(not bad, R, "last-line-length-read-with-the-child-lines",
              "%s reads a decision's last_line_length without looking at the child lines of that decision: when the token has child lines, the line that goes on after it is the last of those, "
              "and what follows is measured from the wrong line" % sorted({short(x.npath) for x in bad}), where=("%s:%d" % (bad[0].file, bad[0].line)) if bad else None,
              instance={"readers": n, "unpaired": sorted({short(x.npath) for x in bad})})
    rep.floor(R, "readers of TokenDecision.last_line_length", n, 4)


def check_c11(prog, rep, tier, cfg):
    child_line_memo_key_is_complete(prog, rep, "C11.h")
    search_prunes_by_penalty_alone(prog, rep, "C11.j")
    line_spanning_kinds_measured(prog, rep, "C11.k")
    line_end_follows_child_lines(prog, rep, "C11.m")
    returns_to_the_indifferent_decision_requeue_both(prog, rep, "C11.n")
    continuing_token_is_measured_from_the_last_child_line(prog, rep, "C11.o")
    measured_indentation_pairs_counters_with_their_strings(prog, rep, "C11.p")
    # C11.l — what is compared with wrap_column is measured in one unit everywhere (shared with C03.g): a line measured in characters at one
    # place and in bytes at another fits by one measure and sticks out by the other, and which one decides depends on the width
    width_measures_agree(prog, rep, "C11.l")
    alternatives_are_not_narrowed(prog, rep, "C11.i")
    # C11.g — the widths the wrapper compares with wrap_column are the widths that are emitted: every pass that can replace a token's
    # text is registered before the wrapping pass (shared with C03.c)
    import c03 as _c03
    from engine import AliasReport as _AR
    _c03.c03c(prog, _AR(rep, [("C03.c", r".", "C11.g")]))
    R = "C11.a"
    inventory(rep, R, "readers of FormattingConfig.wrap_column", readers(prog, FC, "wrap_column"), [CONV_OLF, DOCS, "pasfmt::FormattingConfig::max_line_length"] + SERDE, "wrap_column reaches core only as max_line_length")
    cv = prog.body(CONV_OLF)
    if rep.check(cv is not None, R, "anchor:conversion", "From<&FormattingConfig> for OptimisingLineFormatterSettings not found"):
        agg = [s for _, _, s in cv.stmts() if s["k"] == "assign" and s["rv"]["k"] == "aggregate" and s["rv"].get("adt", "").endswith("OptimisingLineFormatterSettings")]
        ok = len(agg) == 1
        if ok:
            f = dict(zip(agg[0]["rv"]["fields"], agg[0]["rv"]["ops"]))
            ok = canon(cv, f["max_line_length"]) == "arg1.wrap_column" and canon(cv, f["format_multiline_strings"]) == "arg1.format_multiline_strings" and f["iteration_max"]["k"] == "const"
        rep.check(ok, R, "wrap_column->max_line_length", "wrap_column is not passed unchanged as max_line_length")
        # the width has exactly one consumer inside the conversion: no decision and no other settings field may depend on it
        from table import Table, vdesc
        try:
            tb = Table(prog, cv)
        except Exception as e:
            tb = None
            rep.fail(R, "wrap_column-single-use", "conversion is not a loop-free classifier any more: %s" % e)
        if tb is not None:
            leaks = set()
            for cons, res in tb.rows:
                for c in cons:
                    if "wrap_column" in str(c[1]):
                        leaks.add("decision on %s" % (c[1],))
                if res.kind == "agg" and len(agg) == 1 and len(res.a[2]) == len(agg[0]["rv"]["fields"]):
                    for fn, fv in zip(agg[0]["rv"]["fields"], res.a[2]):
                        if fn != "max_line_length" and "wrap_column" in vdesc(fv):
                            leaks.add("field %s = %s" % (fn, vdesc(fv)))
                else:
                    leaks.add("result is not a settings aggregate: %s" % vdesc(res))
            rep.check(not leaks and len(tb.rows) >= 1, R, "wrap_column-single-use", "inside the conversion the configured width also feeds %s — other settings would change with the width" % sorted(leaks),
                      instance={"rows": len(tb.rows), "leaks": sorted(leaks)})
    R = "C11.b"
    acc = [a for a in prog.field_accesses(OLF + "OptimisingLineFormatterSettings", "max_line_length") if a[3] in ("read", "ref") and nondebug(a[0].npath)]
    bodies = sorted({a[0].npath for a in acc})
    inventory(rep, R, "readers of max_line_length", bodies, [OLF + "InternalOptimisingLineFormatter::find_optimal_solution", OLF + "InternalOptimisingLineFormatter::get_decision_penalty"], "")
    n = 0
    from panic import dominating_conditions, source_place, place_eq
    for (b, bb, i, kind, s) in acc:
        if kind != "read" or i == "term":
            continue
        val = s["dst"]["l"]
        uses = []
        for bb2, i2, s2 in b.stmts():
            if s2["k"] == "assign" and s2["rv"]["k"] == "binop":
                for side in ("a", "b"):
                    op = s2["rv"][side]
                    if op["k"] in ("copy", "move") and op["place"]["l"] == val and not op["place"]["p"]:
                        uses.append((bb2, s2, side))
        other_uses = [c for c in b.calls() if any(a["k"] in ("copy", "move") and a["place"]["l"] == val for a in c.args)]
        if other_uses and all("fmt::rt::Argument" in (c.callee or "") or "log" in (c.callee or "") for c in other_uses):
            continue  # trace argument
        for c in other_uses:
            pos = [i2 for i2, a in enumerate(c.args) if a["k"] in ("copy", "move") and a["place"]["l"] == val]
            nm = (c.callee or "?").split("::")[-1]
            if "fmt::rt::Argument" in (c.callee or "") or "log" in (c.callee or ""):
                continue
            if nm in ("checked_sub", "saturating_sub") and pos == [1]:
                n += 1
                rep.ok(R, {"body": short(b.npath), "use": "%s(length, max_line_length): the excess, or nothing when the line fits" % nm, "line": c.line})
            else:
                rep.fail(R, "use:%s:%s" % (short(b.npath), nm), "max_line_length is handed to %s (argument %s) in %s — only `length > max`, the guarded excess `length - max` and checked/saturating `length - max` are reviewed"
                         % (c.callee, pos, short(b.npath)), where=c.where())
        for (bb2, s2, side) in uses:
            n += 1
            op = s2["rv"]["op"]
            if op == "Gt" and side == "b":
                rep.ok(R, {"body": short(b.npath), "use": "length > max_line_length", "line": abs(s2.get("line", 0))})
            elif op in ("Sub", "SubWithOverflow") and side == "b":
                conds = dominating_conditions(b, bb2)
                ok = False
                for c in conds:
                    if c[0] == "cmp" and c[1] == "Gt" and c[4] is True:
                        sp1 = source_place(b, c[3])
                        sp2 = source_place(b, s2["rv"]["b"])
                        if sp1 and sp2 and place_eq(sp1, sp2):
                            ok = True
                rep.check(ok, R, "excess:%s" % short(b.npath), "`length - max_line_length` is computed without the dominating `length > max_line_length`", where="%s:%d" % (b.file, abs(s2.get("line", 0))),
                          instance={"body": short(b.npath), "use": "length - max_line_length under length > max_line_length"})
            else:
                rep.fail(R, "use:%s:%s:%s" % (short(b.npath), op, side), "max_line_length is used in `%s` (operand %s) in %s — only `length > max` and the guarded excess `length - max` are reviewed"
                         % (op, side, short(b.npath)), where="%s:%d" % (b.file, abs(s2.get("line", 0))))
        if not uses and not other_uses:
            # value copied into a struct / passed on
            rep.fail(R, "use:%s:escapes" % short(b.npath), "max_line_length is read in %s but not used in a comparison (value escapes)" % short(b.npath), where="%s:%d" % (b.file, abs(s.get("line", 0))))
    rep.floor(R, "arithmetic/comparison uses of max_line_length", n, 3)
    # ---------------------------------------------------------------- C11.f the price of a column beyond the limit dominates every other price
    R = "C11.f"
    gp = prog.inlined(OLF + "InternalOptimisingLineFormatter::get_decision_penalty")
    if rep.check(gp is not None, R, "anchor:get_decision_penalty", "get_decision_penalty not found"):
        pows = [c for c in gp.calls() if (c.callee or "").endswith("::pow")]
        # the over-limit price: the power of two that is added to a term computed from max_line_length (the excess), however the excess is
        # obtained (`len - max` under `len > max`, `len.checked_sub(max)`, in this function or in a helper spliced in)
        over_blocks = set()
        for bb, i, s2 in gp.stmts():
            if s2["k"] == "assign" and s2["rv"]["k"] == "binop" and s2["rv"]["op"].startswith("Add"):
                ca, cb_ = canon(gp, s2["rv"]["a"]), canon(gp, s2["rv"]["b"])
                for x, y in ((ca, cb_), (cb_, ca)):
                    if "pow(" in x and "max_line_length" in y:
                        for c in pows:
                            if canon(gp, {"k": "copy", "place": c.t["dst"]}) in x:
                                over_blocks.add(c.bb)
        rows = []
        for c in pows:
            base, ex = c.args[0], c.args[1]
            cb = base.get("int") if base["k"] == "const" else None
            ce = ex.get("int") if ex["k"] == "const" else None
            rows.append((cb, ce, c.bb in over_blocks, c))
        nonconst = [r for r in rows if r[0] is None or r[1] is None]
        overs = [r for r in rows if r[2] and r[1] is not None]
        others = [r for r in rows if not r[2] and r[1] is not None]
        ok = not nonconst and len(overs) >= 1 and all(r[0] == 2 for r in rows) and bool(others) and min(r[1] for r in overs) > max(r[1] for r in others)
        rep.check(ok, R, "over-limit-price-dominates", "in get_decision_penalty the price of exceeding max_line_length (2^%s) does not dominate every other price (exponents %s%s): a layout that sticks out can then be "
                  "cheaper than one that fits, and which one wins depends on the width" % ([r[1] for r in overs], sorted(r[1] for r in others), "; non-constant: %d" % len(nonconst) if nonconst else ""),
                  where="%s:%d" % (gp.file, gp.line), instance={"over_limit_exponent": [r[1] for r in overs], "other_exponents": sorted(r[1] for r in others), "non_constant_prices": len(nonconst)})
        rep.floor(R, "power-of-two prices in get_decision_penalty", len(rows), 4)
    # ---------------------------------------------------------------- C11.d memoised measurements do not outlive the text they were taken from
    R = "C11.d"
    of = prog.body(OLF_FMT)
    if rep.check(of is not None, R, "anchor:OLF::format", "OptimisingLineFormatter::format not found"):
        from util import family_calls
        # where the string pass happens in `format`: the call itself, or the block that hands over the closure / calls the helper it is made in
        ms = sorted({a for a, _ in family_calls(prog, of, lambda c: (c.callee or "") == OLF + "multiline_strings::StringFormatter::format_multiline_strings")})
        fls = wrapping_calls(prog, of)
        # memo fields of the wrapper: whatever its methods reach through RefCell::borrow / borrow_mut
        memo_fields = sorted({canon(b2, c.args[0]).split(".")[-1] for b2 in prog.bodies.values() if b2.npath.startswith(OLF + "InternalOptimisingLineFormatter::")
                              for c in b2.calls() if (c.callee or "") in ("core::cell::RefCell::borrow", "core::cell::RefCell::borrow_mut")})
        rep.check(bool(memo_fields), R, "anchor:memo-fields", "no RefCell-held memo found in InternalOptimisingLineFormatter (the rule's structural basis is gone)", instance={"memo_fields": memo_fields})
        if rep.check(len(ms) == 1 and len(fls) >= 2, R, "anchor:rewrite-then-reflow", "string rewrite followed by a second wrapping pass not found (rewrites %d, format_line calls %d)" % (len(ms), len(fls))):
            m_bb = ms[0]
            later = [f for f in fls if f.bb in of.reach_from(m_bb) and m_bb not in of.reach_from(f.bb)]
            clears = [c for c in of.calls() if (c.callee or "").endswith("HashMap::clear") and any(mf in canon(of, c.args[0]) for mf in memo_fields)]
            rep.note("memo fields of the wrapper: %s" % memo_fields)
            for f in later:
                stale = of.can_reach_avoiding(m_bb, {f.bb}, {c.bb for c in clears})
                rep.check(not stale, R, "stale-memo:" + ",".join(memo_fields),
                          "the child-line solutions memoised during the first wrapping pass (%s) are still in place when lines are wrapped again after their multi-line strings were rewritten: "
                          "child lines are then laid out from measurements of the old text, so a line that fits at a narrower wrap_column can exceed a wider one" % ", ".join(memo_fields),
                          where=f.where(), instance={"memo": memo_fields, "reflow_call": "format_line after format_multiline_strings", "cleared_between": not stale})
            rep.floor(R, "wrapping calls after the string rewrite", len(later), 1)
    # ---------------------------------------------------------------- C11.e the string pass reports every rewrite (the reflow and the length refresh hang on it)
    rewrite_is_reported(prog, rep, "C11.e")
    # ---------------------------------------------------------------- C11.c what is compared with the limit is the column the text will really occupy
    newline_use_discipline(prog, rep, "C11.c")
    multiline_measure(prog, rep, "C11.c")


PROPERTIES = {
    "C06": (check_c06,
            "Structural clause of C06 (information-flow necessary condition): the complete inventory of program points that read the input's layout — a token's leading whitespace, "
            "its whole text, ws_len, the original newline/space counters, the text preceding a token in the lexer, LexState.is_first — equals the reviewed set: whitespace-to-counts "
            "reduction, the two comment classifiers (first-on-line), asm line breaks, the clamp(1,2) on the first token of a solved line, max_one_either_side (0-vs-some), the "
            "length table, emission, cursor code; every decision of a solved line overwrites newlines/indentation/continuation; (c) the spacing table decides every gap: for every (previous kind, next kind) pair either `after` of the first or `before` of the second is set (Comment(InlineLine) exempt: always followed by a line break). Not decided: lines without a solution keep input "
            "counters; that the allowed readers pass no more than the allowed fact. Added in round 6: (i) closed reviewed inventory of the sites that construct a FormattingSolutionError (every give-up site lets the input's line breaks reach the output). Added in round 7: (j) the directive consolidator hands its list of merged directives to the caller only together with the replacement of the line's token list.", []),
    "C08": (check_c08,
            "Structural clauses of C08: (a) emission order newlines < indentation < continuation < spaces < content with each counter paired with its string; (b) the only writers of "
            "the four counters are the spacing table, the wrapper and the Eof rule; values stored to newlines_before are 0, 1 or clamp(old,1,2); values stored to spaces_before are "
            "0, 1 or come from the spacing table, whose every Some(u16) is 0, 1 or min(old,1); (c) spaces before every line-starting token are zeroed after wrapping; (d) the Eof "
            "rule stores (1,0,0,0) on the last token, is selected exactly for Eof lines, which the wrapper skips; (e) indentation strings are repeat(one blank char, width). "
            "Not decided: tokens of lines for which no wrapping was found keep the input's counters. Added in round 6: (g) blank definition shared with C13.b plus maximal munch of the blank scanner (it returns only where the next character is evidently not blank); (h) the toggle scan marks an On comment iff a region was open (shared with C07.f). Added in round 7: (i) = C06.j.", []),
    "C09": (check_c09,
            "Structural clauses of C09: (a) the only CR/LF text that can reach the output comes from ReconstructionSettings::new, which pairs Crlf with \"\\r\\n\" and Lf with \"\\n\"; "
            "the settings are immutable and constructed only there; no other CR/LF literal is appended to any string (all other uses are patterns or log text); (b) the newline "
            "string is only pushed or measured, never inspected, so the choice cannot influence a decision; (c) the configuration enum maps Crlf->Crlf, Lf->Lf, Native->Lf here. "
            "(d) cached token lengths are refreshed after the string rewrite; (e) every read of a whole-token content length is overridden by the last-line measure of multi-line tokens; (f) every line-end test in the lexer treats CR and LF alike (a search for one only is tolerated as a presence test). "
            "Not decided: equality of the outputs for CRLF vs LF inputs beyond these necessary conditions. Added in round 6: (i) the AsmInstruction type does not leak from an empty line onto the tokens collected next (shared with C07.j).", []),
    "C10": (check_c10,
            "Structural clauses of C10: (a) use_tabs/tab_width/continuation_indents are read only at the conversion to ReconstructionSettings (and docs), whose table is "
            "Soft: (tab_width, continuation_indents x tab_width saturating), Hard: (1, continuation_indents); (b) wrapper and reconstructor receive the same settings value; "
            "(c) measuring (LineWhitespace::len), cursor width (nonbreaking_ws_len) and emission pair indentations with the indentation string and continuations with the "
            "continuation string (try_rewrite_string included); emitters only append the configured strings (measuring tolerated as a capacity hint), the string fields are read only by their getters; the strings are repeat(' ' | '\\t', width). Not decided: the relation between two runs.", []),
    "C11": (check_c11,
            "Structural clause of C11: wrap_column reaches core only as max_line_length (unchanged), which is used only as the right operand of `length > max` and as the subtrahend "
            "of the excess `length - max` under that comparison — no equality test, no other arithmetic, no escape; inside the conversion the width has a single use; (c) the measured column does not depend on the configured newline and counts multi-line tokens by their last line. Not decided: the relations between two widths. Added in round 6: (g) every pass that can replace token text is registered before the measuring pass (shared with C03.c). Added in round 7: (h) the key of the child-line memo holds the inputs of the memoised computation unchanged.", []),
}
