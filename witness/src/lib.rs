//! E3 — compile-fail witnesses and their compiling twins (run with `cargo +nightly test --doc`).
//!
//! Each witness is a program that *uses pasfmt's public API as an outside crate would* and must be rejected by the
//! type checker with one specific error code; its twin differs only in the offending line and must compile, so a
//! witness cannot pass merely because a path or name is wrong.  If a change to pasfmt makes a witness compile
//! (or a twin fail), the type-level fact that a rule of /verif relies on no longer holds.

/// C15 clause 1 / C07: the cursor tracker is handed `&FormattedTokens`; it cannot obtain tokens mutably.
/// ```compile_fail,E0596
/// use pasfmt_core::prelude::*;
/// struct T;
/// impl CursorTracker for T {
///     fn relocate_cursors(&mut self, formatted_tokens: &FormattedTokens) {
///         let _ = formatted_tokens.tokens_mut().count();
///     }
///     fn notify_token_deleted(&mut self, _: usize) {}
/// }
/// ```
/// Twin:
/// ```
/// use pasfmt_core::prelude::*;
/// struct T;
/// impl CursorTracker for T {
///     fn relocate_cursors(&mut self, formatted_tokens: &FormattedTokens) {
///         let _ = formatted_tokens.tokens().count();
///     }
///     fn notify_token_deleted(&mut self, _: usize) {}
/// }
/// ```
pub struct TrackerSeesSharedTokens;

/// C07: the error arm of the single mutable-token door carries no token — an ignored token's text cannot be replaced.
/// ```compile_fail,E0599
/// use pasfmt_core::prelude::*;
/// fn f(ft: &mut FormattedTokens) {
///     if let Some((Err(t), _)) = ft.get_token_mut(0) {
///         t.set_content(String::new());
///     }
/// }
/// ```
/// Twin:
/// ```
/// use pasfmt_core::prelude::*;
/// fn f(ft: &mut FormattedTokens) {
///     if let Some((Ok(t), _)) = ft.get_token_mut(0) {
///         t.set_content(String::new());
///     }
/// }
/// ```
pub struct IgnoredTokenHasNoMutableDoor;

/// C07: the `ignored` flag of a token's formatting data cannot be written from outside its module.
/// ```compile_fail,E0616
/// use pasfmt_core::prelude::*;
/// fn f(fd: &mut FormattingData) {
///     fd.ignored = false;
/// }
/// ```
/// Twin:
/// ```
/// use pasfmt_core::prelude::*;
/// fn f(fd: &mut FormattingData) {
///     fd.spaces_before = 1;
/// }
/// ```
pub struct IgnoredFlagIsPrivate;

/// C01: a token's text cannot be assigned directly; `set_content` is the only door.
/// ```compile_fail,E0616
/// use pasfmt_core::prelude::*;
/// fn f(t: &mut Token) {
///     t.content = std::borrow::Cow::Borrowed("");
/// }
/// ```
/// Twin:
/// ```
/// use pasfmt_core::prelude::*;
/// fn f(t: &mut Token) {
///     t.set_content(String::new());
/// }
/// ```
pub struct TokenTextIsPrivate;

/// C18: the formatter built by the front end can be shared between worker threads (`Sync`), and the assertion used is
/// meaningful (it rejects a type with unsynchronised interior mutability).
/// ```
/// fn assert_sync<T: Sync>() {}
/// assert_sync::<pasfmt_core::prelude::Formatter>();
/// let _f: fn(&pasfmt::FormattingConfig) -> pasfmt_core::prelude::Formatter = pasfmt::make_formatter;
/// ```
/// ```compile_fail,E0277
/// fn assert_sync<T: Sync>() {}
/// assert_sync::<std::cell::RefCell<pasfmt_core::prelude::Formatter>>();
/// ```
pub struct FormatterIsSync;

/// C16 / C18: formatting takes the formatter by shared reference.
/// ```
/// use pasfmt_core::prelude::*;
/// fn f(fmt: &Formatter) -> String {
///     fmt.format("a", FileOptions::new())
/// }
/// ```
pub struct FormatTakesSharedSelf;
