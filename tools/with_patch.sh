#!/bin/bash
# usage: tools/with_patch.sh <patch.diff|-R:commit> <verif args...>
# Applies a patch to a scratch worktree of /repo (outside /repo and /verif), runs ./verif against it with
# evidence redirected to a scratch dir, prints the output and removes the worktree + its facts.
set -u
PATCH="$1"; shift
WT=$(mktemp -d /tmp/pasfmt-wt-XXXXXX)
rmdir "$WT"
git -C /repo worktree add --detach -q "$WT" HEAD || exit 2
if [[ "$PATCH" == -R:* ]]; then
  git -C "$WT" revert --no-commit "${PATCH#-R:}" >/dev/null 2>&1 || { echo "revert failed"; git -C /repo worktree remove --force "$WT"; exit 2; }
elif [[ "$PATCH" != "none" ]]; then
  git -C "$WT" apply "$PATCH" || { echo "patch failed"; git -C /repo worktree remove --force "$WT"; exit 2; }
fi
EV=$(mktemp -d /tmp/pasfmt-ev-XXXXXX)
cd /verif
PASFMT_REPO="$WT" VERIF_EVIDENCE_DIR="$EV" ./verif "$@"
RC=$?
TAG=$(python3 -c "import hashlib,sys;print(hashlib.sha256(sys.argv[1].encode()).hexdigest()[:8])" "$WT")
rm -rf "${VERIF_CACHE:-/verif/.cache}"/facts/*-"$TAG" "$EV"
git -C /repo worktree remove --force "$WT"
exit $RC
