#!/usr/bin/env python3
"""Regenerates /verif/MANIFEST.json from the table below (hand-maintained source of truth)."""
import json
import os
import sys

VERIF = os.path.dirname(os.path.dirname(os.path.abspath(__file__)))
sys.path.insert(0, os.path.join(VERIF, "rules"))

TB = ("Trusted base: rustc nightly front end + MIR construction; the fact extractor (facts-driver); the rule engine; semantics of named library functions "
      "(std, encoding_rs, rayon, config, serde). Analysed: lib+bin targets of the three crates on the host target; not analysed: cfg(test), cfg(windows), the web crate, dependency bodies. ")

C = {
 "C01": ("static analysis: who-may-call / who-may-write inventories, must-pass-through and origin-set rules on type-checked MIR",
         "Decides structural necessary conditions of character preservation for every input: output assembly (one content push per token, on every path, from a single unadapted pass over the token vector; everything else pushed is blank material), text confinement (token text replaced only in Token::set_content, called by four reviewed normalisers; tokens constructed only by the lexer; no sequence operation other than iteration/get/len/push-in-lexer/retain-in-delete), no token remover, the skip discipline of the string-rebuilding normaliser, the blank definition of the lexer's whitespace counters, and — by a symbolic slice algebra over the MIR — that the two loop-free re-assemblers (line comments, directives) append consecutive sub-slices of the token's own text that cover it completely (plus blanks / an ASCII case map / trim_ascii_end). The behaviour as a whole is not decided.",
         "Not decided: that try_rewrite_string keeps every character of every line it pushes (loop invariant over strings); lexer value-level losslessness (C13 residue)."),
 "C02": ("static analysis: decision-table extraction (path enumeration of loop-free classifiers) evaluated on enum cubes + dominance rules on MIR",
         "Decides the hard-break table on all (previous kind, current kind) cubes, that the table is consulted first and cannot be weakened, that the search honours Must/MustNot, that Break decisions become real newlines, the single-line-comment safety net as a decision table of the emission step (with the calls made on every path), the bracket-only zero entries of the spacing table, that token text changes only through the documented normalisations, each on its own token kind (who calls set_content, dispatch facts, partition / skip discipline of each re-assembler), and that the normalisers compare characters as characters (no byte-vs-byte comparison of UTF-8 text). Not the behaviour as a whole.",
         "Not decided: generic-bracket re-typing heuristics; full operator-pair gluing matrix; lines for which no wrapping is found keep input counters."),
 "C03": ("static analysis: must-pass / ORDER rules and decision tables on MIR, one per mechanism the property is anchored in (several shared with C06, C09, C11, C16)",
         "Decides structural necessary conditions of idempotence, not the fixpoint relation: the blank the line-comment normaliser inserts is accepted by its own blank test; `unchanged` is exact equality of (decoded input, formatter output) in files mode and check mode; every pass that can replace token text is registered before the pass that measures it; after the multi-line-string rewrite the cached lengths are re-read, every rewrite is reported and line-start blanks are removed after the last wrapping; the one surviving layout fact (blank-line group) is stored as clamp(_,1,2).",
         "Not decided: that format(format(x)) == format(x) — a relation between two executions through the lexer's reading of the formatter's own layout."),
 "C05": ("static analysis: decision tables and origin / value-class rules on MIR at the hand-over points the property is anchored in",
         "Decides structural necessary conditions of block rendering, not the grouping of tokens into statements: format_line starts every top-level logical line with a forced break at (level indentations, 0 continuations) except the first line of the file; Decision::Break becomes >= 1 line break at the solution's indentation, Decision::Continue none; begin_style=Always_Wrap <-> break_before_begin=true, read only where the break before the first child line is decided; every finished logical line gets the level computed from the context stack and the next line starts at it.",
         "Not decided: which tokens form a statement, the level arithmetic of the parser's context stack, the placement of child lines by the search."),
 "C04": ("static analysis: loop-progress dataflow with inter-procedural must-advance summaries over the resolved call graph; closed panic-site inventory with re-derived guards; call-graph SCC inventory",
         "Decides structural necessary conditions of termination / abort-freedom: progress witness on every cycle path of every parser/lexer/consolidator loop (closures and combinator parameters resolved, reviewed exceptions re-verified), every panic-capable site auto-verified or in a reviewed inventory keyed by canonical operands, search cut-off with fallback, recursion inventory (7 known findings: stack exhaustion), lexer dispatch totality, memoisation of the wrapper's recursion into child lines (a necessary condition of the polynomial-time clause). Six genuine defects were found with these rules and fixed. No running-time bound, no well-foundedness proof.",
         "Not decided: polynomial time; number of conditional-directive passes; the 150 reviewed (not re-derived) invariants; add/mul overflow asserts."),
 "C06": ("static analysis: information-flow inventory (closed who-reads sets over MIR places and accessor calls)",
         "Decides one necessary condition of layout independence: the complete inventory of program points that can observe the input's layout equals the reviewed set (the three facts the property allows, the whitespace-to-counts reduction, emission, cursor code), every decision of a solved line overwrites the inherited counters, the spacing table decides every gap (for every (previous kind, next kind) someone sets the space between them), where the spacing rule still looks at a raw gap a line break counts like a blank, the emission step reads original whitespace only for ignored tokens, and the parser's current line is Unknown-typed whenever finish_logical_line returns (an ignorable line type cannot leak to the tokens parsed next). The two-run relation itself is not decided.",
         "Not decided: lines without a wrapping solution keep input counters; that allowed readers pass no more than the allowed fact."),
 "C07": ("static analysis: decision table of the single mutable-token door, who-writes rules, dominance / loop-shape rules on MIR",
         "Decides structural clauses of verbatim regions: ignored tokens cannot be obtained mutably (single door, Err iff ignored), marks are never removed and reach FormattedTokens before any formatter, the ignored emission arm copies the original whitespace and nothing else, asm lines fully marked and skipped by the wrapper, whole-line voiding requires all tokens ignored, the toggle scan visits every token and flips only on exact on/off, every logical line finished while parsing asm instructions is typed AsmInstruction on every path. Region extent as a function of comment text is not decided.",
         "Not decided: value-level boundaries of regions beyond the recognised constants."),
 "C08": ("static analysis: ORDER/AGREE rules, closed value sets of stores (origin sets), decision tables",
         "Decides emission order and counter/string pairing, the closed sets of values that can be stored into the whitespace counters (0, 1, clamp(old,1,2), min(old,1)), line-start and first-token space zeroing as the last writer on every path, the end-of-file rule and its selection, the construction of indentation strings, that line comments end without blanks on every path, and that the spacing table decides every gap. Cleanliness of lines left unwrapped is input-dependent and not decided.",
         "Not decided: tokens of lines for which no wrapping was found; voided lines."),
 "C09": ("static analysis: sink-based constant-flow rule, non-interference of the newline string (uses restricted to push/len), decision tables",
         "Decides that the only CR/LF text that can reach the output is the literal paired with the configured LineEnding, that no other CR/LF literal is appended anywhere, that the newline string is only emitted or measured, that cached token lengths are refreshed after the string rewrite and that whole-token lengths never measure a multi-line token (so crlf output = lf output with terminators substituted, as far as decisions are concerned), and that every line-end test of the lexer treats CR and LF alike (necessary for CRLF input = LF input). The two-run equivalences themselves are not decided.",
         "Not decided: CRLF-vs-LF input equivalence beyond the CR/LF parity of the lexer's line-end tests."),
 "C10": ("static analysis: who-reads inventory, decision table of the conversion, AGREE rules on the width computations",
         "Decides that the indentation options are interpreted at one conversion site with the documented table, that measuring, re-indenting and emitting use the same settings value and pair each counter with its own string (emitters may only append the configured strings, which are reachable only through their getters). The replacement relation between two runs is not decided.",
         "Not decided: the tab<->space relation between two runs."),
 "C11": ("static analysis: who-reads inventory and use-site classification of one field",
         "Decides that wrap_column reaches the wrapper only as max_line_length (its single use in the conversion), is used only in `length > max` and in the guarded excess, that what is compared with it is measured independently of the configured newline with multi-line tokens counted by their last line, that a rewrite of any literal of a line is reported to the re-flow (the flag accumulates), and that memoised child-line solutions are not carried across the rewrite (1 known finding). Monotonicity between two widths is not decided.",
         "Not decided: relations between two runs with different widths."),
 "C12": ("static analysis: dominance guards, loop skip-discipline (must-pass-through), provenance (origin sets), AGREE of terminator sets",
         "Decides when rewriting may happen (enabled, un-ignored MultiLine literal, successful and different rewrite, own content and counters), that an interior line can be left out only when blank, provenance of everything appended (closed mutator set), agreement of the terminator sets and the splitter automaton, and that the re-indenter writes with the same settings value the reconstructor emits with. Per-line value preservation is not decided.",
         "Not decided: that each pushed line is intact and in order."),
 "C13": ("static analysis: prefix-split discipline via canonical origin expressions, AGREE of sibling constant tables (MIR constants + HIR const initialisers), decision tables",
         "Decides the prefix-split discipline of the scanner loop, single Eof, agreement of the AVX2/scalar/dispatch-map character sets and of the blank definition, keyword-table bijection and case-insensitive whole-word match, inline-comment classification, and a closed inventory of the lexer's terminator searches (needles, text searched, length added; each block-comment kind closed by its own delimiter). Boundary arithmetic of hand-written sub-lexer loops and of the AVX2 chunking is not decided.",
         "Not decided: token boundaries as a function of text; AVX2 chunk/tail arithmetic; non-empty-content clause. The AVX2 agreement rule can only read range comparisons: a table-driven rewrite is reported (fail-closed)."),
 "C14": ("static analysis: who-writes inventories, must-pass-through (push before advance), decision-table partition check, unconditional-arm rule",
         "Decides that the pass cursor only advances over pushed tokens (or past the end), that skipped directives and all conditional directives unconditionally get their own line, the exhaustive disjoint partition of directive kinds, the unconditional Eof line, and the closed set of mutators of line token lists. Ordering/parent clauses are not decided.",
         "Not decided: strictly increasing order; parent clauses; multi-pass merging."),
 "C15": ("static analysis: type-level non-interference (flow of the cursor list, shared-reference signatures, deep interior-mutability / unsafe / statics scans)",
         "Decides clause 1 (cursor tracking never changes the text) for every input and cursor list, and of clauses 2-3 one structural necessary condition: cursors are mapped independently of each other (collections and iterators of cursors are only traversed completely and element-wise), the configured newline length measures only tokens that are emitted with it, and the cursor code cuts token text byte-exactly at one separator constant (writer and reader of a position inside a multi-line token agree). Where a cursor lands is not decided; cursor arithmetic panics are audited under C04.b.",
         "Not decided: positions of reported cursors (clauses 2-3)."),
 "C16": ("static analysis: effect confinement (who-may-call over the resolved call graph), write-protocol dominance/origin rules, length accounting, error-discipline scan",
         "Decides for every path and schedule: only format_files can cause a file write; seek -> write -> set_len(returned length) with `?` propagation; every write_all accounted; decode-before-effect on a freshly cleared buffer; check verdict and exit-code plumbing; same writer for files and stdout. OS behaviour and path expansion are not decided.",
         "Not decided: that the OS honours seek/write/set_len; glob/dir expansion; the formatted text itself."),
 "C17": ("static analysis: origin-set agreement, must-check-flag rule, dominance, constant pairing",
         "Decides that one (encoding, BOM) pair is chosen in decode_file and used for decoding and both write paths, had-errors flags are tested and lead to Err, BOM before data, UTF-16 byte-order pairing, Err(Unsupported) fall-through, and what is left in the file is exactly what the writer produced (rewritten from offset 0 and cut to the returned length on every success path). encoding_rs tables and the Windows code page are not analysed.",
         "Not decided: value-level correctness of encoding_rs; cfg(windows) code."),
 "C18": ("static analysis: type facts (deep UnsafeCell walk over pipeline component types and trait implementors, statics, unsafe), dominance and capture-mode rules",
         "Decides the absence of cross-file channels for every schedule: no mutable statics beyond one idempotent cache, no interior mutability in any shared component, input buffer cleared on every path before each read, shared-only captures, no early exit, and no file leaves the batch (lists of paths only grow; the only dropping adaptor of the path expansion is the formattable-file filter). rayon is trusted.",
         "Not decided: rayon internals; two paths naming the same file."),
 "C19": ("static analysis: callee-identity and ORDER rules on the config builder calls, inspection of the expanded serde impls, AGREE of option inventories, who-reads inventory",
         "Decides layering (file source, then set_override per -C item, never set_default / required(false)), strict deserialisation in the expanded impls, errors before any effect, agreement of struct/docs()/CONFIGURATION.md, one conversion site per option, every -C item applied, the ancestor search visiting every ancestor nearest first, and no narrowing integer cast on the configuration path (an out-of-range value is rejected by the declared field type, not wrapped). The ancestor walk's arithmetic and the config crate's semantics are not decided.",
         "Not decided: find_config_file's loop arithmetic; semantics of the `config` crate."),
}

NA = {
}


def main():
    checks = []
    for pid in sorted(C):
        tech, text, note = C[pid]
        try:
            import notes_round8
            extra = notes_round8.NOTES.get(pid, "")
        except Exception:
            extra = ""
        text = (text + " " + extra).strip()
        checks.append({
            "property_id": pid,
            "quick_cmd": "./verif check %s --tier quick" % pid,
            "thorough_cmd": "./verif check %s --tier thorough" % pid,
            "evidence_file": "/verif/evidence/%s.json" % pid,
            "replay_cmd_template": "./verif explain {path}",
            "engine": "rules",
            "level_claimed": {"category": "other", "text": text, "design_ref": "DESIGN.md §4 " + pid},
            "level_note": TB + note,
            "technique": tech,
        })
    m = {
        "version": 1,
        "setup_cmd": "./verif setup",
        "hooks": {"guard": "pasfmt_verif", "enable": "no hooks are needed: the checks analyse /repo's unmodified sources (cargo +nightly check with the fact extractor as RUSTC_WORKSPACE_WRAPPER)",
                  "baseline_off_cmd": "cd /repo && cargo test --workspace --no-fail-fast --offline", "source_commits": [], "add_only": True},
        "engines": [
            {"name": "facts-driver", "path": "facts-driver", "serves_properties": sorted(C), "kind_free_text": "rustc_private driver (nightly): dumps type-checked MIR with resolved callees, constants (incl. promoted and statics), ADTs with deep interior-mutability facts, impls, statics and const-initialiser HIR trees as JSON"},
            {"name": "rules", "path": "rules", "serves_properties": sorted(C), "kind_free_text": "Python rule engine: CFG/dominators/loops, origin sets, canonical expressions, call graph (dyn via class hierarchy), must-advance summaries, decision tables, inventories"},
            {"name": "seeded", "path": "seeded", "serves_properties": sorted(C), "kind_free_text": "independently produced breaking changes (patch + demonstration + meta) used to test the rules; mutants/ holds self-made ones"},
        ],
        "checks": checks,
        "not_applicable": [{"property_id": k, "reason": v} for k, v in sorted(NA.items())],
        "notes": "Family: static analysis only. Every claimed check decides structural clauses (necessary conditions visible in the shape of the resolved program) and says so; for C03 and C05 only the mechanisms the properties are anchored in are decided (the fixpoint relation / the parser's grouping are not). Genuine defects found: 19 fix: commits in /repo (18 defects, one fix reworked), 9 entries in known_findings.json (7 x stack exhaustion by recursion, the stale child-line memo under C11 and C03).",
    }
    json.dump(m, open(os.path.join(VERIF, "MANIFEST.json"), "w"), indent=1)
    print("wrote MANIFEST.json with %d checks, %d not applicable" % (len(checks), len(NA)))


if __name__ == "__main__":
    main()
