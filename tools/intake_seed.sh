#!/usr/bin/env bash
# Intake of a seeded change produced in a scratch worktree of /repo (outside /repo and /verif).
#   tools/intake_seed.sh <worktree> <seed-name>
# Confirms, before anything is kept: patch.diff is exactly the worktree's diff; the demo exits 1 with the change
# and 0 with /repo's own binary; the whole test suite passes with the change.  Then copies patch/demo/meta to
# /verif/seeded/<seed-name>/ and removes the worktree together with its build output.
set -u
WT="$1"; NAME="$2"
VERIF="$(cd "$(dirname "${BASH_SOURCE[0]}")/.." && pwd)"
export CARGO_NET_OFFLINE=true
fail() { echo "INTAKE FAILED: $*"; exit 1; }
[ -f "$WT/seed_out/patch.diff" ] && [ -f "$WT/seed_out/demo.sh" ] && [ -f "$WT/seed_out/meta.json" ] || fail "deliverables missing"
( cd "$WT" && git diff | diff -q - seed_out/patch.diff >/dev/null ) || fail "patch.diff differs from the worktree's git diff"
( cd "$WT" && cargo build --offline 2>&1 | tail -1 )
( cd "$WT" && bash seed_out/demo.sh >/tmp/intake-demo-with.txt 2>&1 ); with=$?
( cd /repo && cargo build --offline 2>&1 | tail -1 )
( cd "$WT" && PASFMT_BIN=/repo/target/debug/pasfmt bash seed_out/demo.sh >/tmp/intake-demo-without.txt 2>&1 ); without=$?
echo "demo with change: exit $with; with /repo binary: exit $without"
[ "$with" = 1 ] || { tail -5 /tmp/intake-demo-with.txt; fail "demo does not fail with the change"; }
[ "$without" = 0 ] || { tail -5 /tmp/intake-demo-without.txt; fail "demo does not pass on the unchanged code"; }
res="$( cd "$WT" && cargo test --workspace --offline 2>&1 | grep '^test result' | sed 's/\x1b\[[0-9;]*m//g' )"
echo "$res"
if echo "$res" | grep -v " 0 failed" | grep -q .; then fail "test suite fails with the change"; fi
passed=$(echo "$res" | sed -n 's/.* \([0-9]*\) passed.*/\1/p' | paste -sd+ | bc)
[ "$passed" -ge 3212 ] || fail "only $passed tests passed"
mkdir -p "$VERIF/seeded/$NAME"
cp "$WT/seed_out/patch.diff" "$WT/seed_out/demo.sh" "$WT/seed_out/meta.json" "$VERIF/seeded/$NAME/"
python3 - "$VERIF/seeded/$NAME/meta.json" "$passed" <<'EOF'
import json, sys
p = sys.argv[1]
d = json.load(open(p))
d["confirmed_by_me"] = "tools/intake_seed.sh: patch.diff equals the worktree's git diff; demo.sh exits 1 with the change and 0 with /repo's binary; cargo test --workspace --offline with the change: %s passed, 0 failed" % sys.argv[2]
json.dump(d, open(p, "w"), indent=1)
EOF
git -C /repo worktree remove --force "$WT"; rm -rf "$WT" /tmp/intake-demo-with.txt /tmp/intake-demo-without.txt
echo "INTAKE OK: seeded/$NAME ($passed tests passed with the change)"
