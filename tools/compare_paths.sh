#!/usr/bin/env bash
export RUST_BACKTRACE=0 RUST_LIB_BACKTRACE=0; A="$1"; B="$2"; T=$(mktemp -d); d=0
mk(){ rm -rf "$1"; mkdir -p "$1/src/sub" "$1/other" "$1/weird.pas"; printf 'a  :=  b ;\n' > "$1/src/a.pas"; printf 'begin  x;end.\n' > "$1/src/sub/b.PAS"; printf 'c ;\n' > "$1/src/c.dpr"; printf 'd ;\n' > "$1/src/d.txt"; printf 'e ;\n' > "$1/other/e.dpk"; printf '\xff\xfe\xff' > "$1/other/bad.pas"; printf 'w ;\n' > "$1/weird.pas/w.pas"; ln -s "$1/src/a.pas" "$1/other/link.pas"; }
run(){ mode="$1"; shift; for bin in A B; do mk "$T/$bin"; ( cd "$T/$bin" && RAYON_NUM_THREADS=1 "${!bin}" --mode="$mode" "$@" >"$T/$bin.out" 2>"$T/$bin.err"; echo "rc=$?" >>"$T/$bin.out"; find . -type f | sort | xargs sha256sum >"$T/$bin.tree" 2>/dev/null ); sed -i "s#$T/$bin#ROOT#g" "$T/$bin.out" "$T/$bin.err"; done; if ! cmp -s "$T/A.out" "$T/B.out" || ! cmp -s "$T/A.err" "$T/B.err" || ! cmp -s "$T/A.tree" "$T/B.tree"; then echo "DIFF: mode=$mode args=$*"; d=$((d+1)); fi; }
for mode in files check stdout; do
  run $mode src; run $mode src/; run $mode src other; run $mode src src/a.pas; run $mode src/a.pas src/a.pas ./src/a.pas; run $mode 'src/*.pas'; run $mode 'src/**/*.PAS'; run $mode 'nomatch*'; run $mode '[' ; run $mode missing.pas src; run $mode weird.pas; run $mode other; run $mode other/link.pas src/a.pas; run $mode src/d.txt; run $mode . ;
done
echo "path-expansion comparisons done: $d difference(s)"; rm -rf "$T"; [ $d = 0 ]
