#!/usr/bin/env python3
"""One-off helper used while *reviewing* the panic sites: assigns the reviewed invariant to each
site key by pattern and writes rules/panic_sites.json.  The check itself only reads the frozen JSON
(exact keys); it never runs this script."""
import json, re, sys, os
sys.path.insert(0, os.path.join(os.path.dirname(os.path.abspath(__file__)), "..", "rules"))
from facts import Program
import panic, extract

RULES = [
 # ---- cursor code
 (r"notify_token_deleted\|sub\|", "ordering: the decrement is in the `deleted_token < tok_idx` arm of cmp(), so tok_idx >= 1"),
 (r"relocate_cursors\|sub\|.*offset_for_token.*len\(get_content.* - Add\(sum", "multiline-cursor: offset_from_end is measured inside the same token (newlines_after_cursor lines + reverse_col <= content length when the content is unchanged); for re-indented strings see DESIGN §6 finding 7"),
 (r"relocate_cursors\|sub\|var:lines_back - 1", "lines_back > 0 is tested by the enclosing `if`"),
 (r"relocate_cursors\|sub\|Add\(offset_for_token", "offset_for_token(i) includes ws_len(token i) as its last summand, so it is >= ws_len(token i)"),
 (r"relocate_cursors\|sub\|", "cursor-col: col_ws_start <= clamp(..) <= col_start by construction (col_start = col_ws_start + nonbreaking ws), and col_start - clamp <= nonbreaking ws <= ws_len <= offset_for_token"),
 (r"process_cursors\|sub\|", "cursor_rem stays >= 0: it is only decreased by next_len when cursor_rem > next_len, and the whitespace subtraction is on i64"),
 (r"process_cursors::\{closure#1\}\|bounds\|", "token-index-valid: tok_idx comes from enumerate() over the same token slice"),
 (r"process_cursors::\{closure#1\}\|index\|str\[RangeFrom", "0 <= tok_pos <= content length (cursor_rem <= whole token length minus leading whitespace); character boundary is the property's precondition on cursors"),
 (r"process_cursors::\{closure#1\}\|sub\|count\(split", "str::split yields at least one item, so count() >= 1"),
 (r"process_cursors::\{closure#1\}\|split_at\|", "-ws_len <= tok_pos < 0 so 0 <= ws_len + tok_pos <= ws_len; character boundary is the property's precondition on cursors"),
 (r"process_cursors::\{closure#1\}\|sub\|len\(split_at", "rfind returned Some(pos) with pos < len, so len - 1 - pos >= 0 (len >= 1 because a match exists)"),
 (r"process_cursors::\{closure#1\}\|sub\|Sub\(len\(split_at", "rfind returned Some(pos) with pos <= len - 1"),
 (r"col_for_token_end_(pre|post)_fmt\|sub\|", "col just had the whole text length added; rfind position + 1 <= that length"),
 (r"nonbreaking_ws_len\|sub\|", "rfind position + 1 <= length of the searched string"),
 # ---- builder (runs before any input)
 (r"BuildFormatter>::build\|unwrap\|", "typestate builder: build() exists only for WithReconstructor, reached only through lexer()/parser()/reconstructor(), each of which stores Some; runs before any input is read"),
 # ---- lang
 (r"FormattingData as .*From<\(&str, bool\)>>::from\|sub\||FormattingData as core::convert::From.*::from.*\|sub\|", "trim_start() returns a suffix of the same string, so its length is <= the original length"),
 (r"lang::(RawToken|Token)(<'_>)? as lang::TokenData>::get_(content|leading_whitespace)\|index\|", "ws_len-valid: ws_len is the lexer's count_leading_whitespace of this token's text (bytes <= 0x20 or whole U+3000), a char boundary <= len; set_content re-uses the same prefix (Token::set_content asserts in debug)"),
 (r"lang::LogicalLine::void_and_drain\|range\|", "drain(0..) is valid for every Vec"),
 (r"ReconstructionSettings::new\|capacity\|", "repeat count is a u8 (<= 255) times a 1-byte string"),
 # ---- formatter
 (r"delete_marked_tokens::\{closure#1\}\|index\|", "token-index-valid: new_indices has one entry per token and line token indices are < tokens.len() (unreachable in the shipped pipeline: no TokenRemover is registered, see C01.c)"),
 # ---- rules
 (r"ConditionalDirectiveConsolidator as .*consolidate\|index\|", "index returned by binary_search_by_key(..) == Ok(i) on the same Vec"),
 (r"ConditionalDirectiveConsolidator::expand_line\|sub\|", "line-tokens-increasing: logical-line token indices are strictly increasing (C14), so last >= first, current > prev and current >= 1"),
 (r"EofNewline as .*format\|sub\|", "lexer:>=1 token: the lexer always appends the Eof token, so formatted_tokens.len() >= 1"),
 (r"DistinguishGenericTypeParamsConsolidator as .*consolidate\|unwrap\|", "nonempty-by-loop-guard: inside `while !state.is_empty()`, no pop between the loop test and this pop on this arm"),
 (r"DistinguishGenericTypeParamsConsolidator as .*consolidate\|bounds\|", "token-index-valid: open_idx/next_idx were obtained from tokens.get(idx) == Some(..) in the same iteration / when pushed"),
 (r"DistinguishGenericTypeParamsConsolidator as .*consolidate\|sub\|", "arm guard `brack_count > 0` and prev.brack_count < brack_count"),
 (r"comment_contents::format_compiler_directive\|", "char-boundary/length: stripped is a suffix of content (strip_prefix), directive_len counts leading ASCII bytes of stripped"),
 (r"comment_contents::format_line_comment\|(sub|index)\|", "comment is a suffix of content obtained by strip_prefix, so content.len() - comment.len() is a valid boundary"),
 (r"comment_contents::format_line_comment\|char-boundary\|", "truncate to the length of trim_ascii_end() of the same string (a prefix ending on a char boundary)"),
 (r"formatting_toggle::", "char-boundary: offsets are counts of leading ASCII bytes (or prefix.len() after is_char_boundary/len checks) of the same string"),
 (r"token_spacing::space_operator::\{closure#1\}\|sub\|", "token-index-valid: token_idx < formatted_tokens.len() (index of the token being spaced)"),
 (r"multiline_strings::.*format_multiline_strings\|unwrap\|unwrap\(get_token_mut", "token-index-valid: idx is a token index of a logical line"),
 (r"multiline_strings::.*format_multiline_strings\|unwrap\|unwrap\(last\(lines", "lexer:non-empty content: a MultiLine literal starts with quotes, so lines() yields at least one line"),
 (r"multiline_strings::.*format_multiline_strings\|index\|", "count_leading_whitespace(s) <= s.len() and ends on a char boundary"),
 # ---- optimising line formatter
 (r"OptimisingLineFormatter as .*LogicalLineFileFormatter>::format\|bounds\|", "line-ref-valid: parent.line_index refers to a line of the same slice (parser remaps parents in consolidate_pass_lines)"),
 (r"get_line_children::\{closure#0\}\|bounds\|", "line-ref-valid: called with indices of `lines` / parent line indices"),
 (r"reconstruct_solution\|expect\|", "decisions-parallel-to-tokens: a solution has one decision per token of its line"),
 (r"reconstruct_solution::\{closure#0\}\|bounds\|", "line-ref-valid: child line indices stored in solutions come from line_children"),
 (r"find_optimal_child_lines_solution\|index\|", "next_line_index < line token count (the caller returns a solution when next_line_index >= len)"),
 (r"find_optimal_child_lines_solution::\{closure#8\}\|refcell\|", "refcell-no-live-borrow: the Ref from borrow() is a temporary of the `if let` and is dropped before the recursive find_optimal_solution; borrow_mut() happens after it"),
 (r"find_optimal_child_lines_solution::\{closure#8\}::\{closure#1\}\|bounds\|", "line-ref-valid: child line indices come from line_children"),
 (r"find_optimal_solution\|index\|Vec<rules::optimising_line_formatter::TokenLength>", "token-index-valid: first token index of the line; token_lengths has one entry per token"),
 (r"find_optimal_solution\|sub\|", "nodes in the search have next_line_index >= 1 (the first token is decided before the loop)"),
 (r"find_optimal_solution\|index\|Vec<u64>", "best_penalties has one entry per line token and next_line_index - 1 < len / next_line_index < len (checked two statements earlier)"),
 (r"find_optimal_solution\|vec-index\|remove", "guarded by node_successors.len() == 1"),
 (r"find_optimal_solution\|range\|drain", "drain(..) over the full range is always valid"),
 (r"get_decision_penalty\|arith-lib\|", "constant exponents of 2 well inside u64"),
 (r"contexts::LineFormattingContexts::new\|unwrap\|", "dominated-by-some: get_operator_precedence(op) was tested is_some() for the same operator two lines earlier"),
 (r"contexts::.*\|index\|", "context-index-valid: node indices are created by the ParentPointerTree and vectors are sized by its len()"),
 (r"contexts::.*update_contexts_from_child_solutions::\{closure#2\}\|expect\|", "context-index-valid (expect message states the invariant)"),
 (r"parent_pointer_tree::.*\|refcell\|", "refcell-no-live-borrow: every borrow in this module is a temporary that does not outlive the method (Ref::map results are consumed by callers before the next mutation)"),
 (r"parent_pointer_tree::.*\|index\|", "node-index-valid: NodeRef.index is assigned from data.len() at push and nodes are never removed"),
 (r"debug::.*\|", "trace-only: reachable only from log::trace! formatting; indices mirror the structures audited above"),
 # ---- lexer
 (r"lexer::_block_comment\|index\|", "lexer offsets: offset/end_offset are byte offsets produced by scans of the same input, offset <= end_offset <= len; byte-slice indexing has no char-boundary requirement"),
 (r"lexer::_block_comment\|sub\||lexer::compiler_directive\|sub\|", "lexer:offset>=start_len: the dispatcher consumed the opening delimiter (1 or 2 bytes) before calling"),
 (r"lexer::(asm_identifier|identifier_or_keyword)\|sub\|", "lexer:offset>=1 after consume(1) in lex_token_with_map"),
 (r"lexer::(asm_identifier|identifier_or_keyword)\|index\|", "offset-1 is the ASCII start byte that selected this sub-lexer; find_identifier_end stops on a char boundary (it only leaves on an ASCII non-identifier byte, on U+3000, or at the end)"),
 (r"lexer::conditional_directive_type\|index\|", "end_offset = offset + count of leading ASCII bytes"),
 (r"lexer::consume_to_eof\|sub\|", "count_unicode_whitespace sums len_utf8 of trailing chars of the same string"),
 (r"lexer::count_leading_whitespace\|index\|", "count counts leading ASCII (<= 0x20) bytes, a char boundary"),
 (r"lexer::count_matching_char_bytes\|index\|", "callers pass offsets on char boundaries (after ASCII bytes)"),
 (r"lexer::eof\|split_at\|", "count_leading_whitespace(input) <= len, on a char boundary"),
 (r"lexer::find_block_comment_end\|index\|", "offset <= len (byte slice)"),
 (r"lexer::find_identifier_end_avx2::range_mask\|sub\|", "range starts are b'a', b'A', b'0' (>= 1); called with constant ranges only"),
 (r"lexer::lex_complete\|panic\|", "assert!(remaining.is_empty()): lex() leaves the loop only when whitespace_and_token returns None, i.e. no byte after the blanks; eof() then splits at count_leading_whitespace of the same remainder (C04.e / C13.a)"),
 (r"lexer::line_comment\|index\|", "offset <= len, after an ASCII '/'"),
 (r"lexer::rounded_prefix\|index\|", "n is advanced to a char boundary or len"),
 (r"lexer::text_literal\|sub\|", "lexer:offset>=1 after consume(1)"),
 (r"lexer::text_literal\|index\|", "offset + quote_count <= len was established by the get(offset + quote_count) == Some test"),
 (r"lexer::text_literal::consume_pascal_str\|index\|", "guarded by `*offset >= bytes.len()` return just above"),
 (r"lexer::to_final_token::\{closure#0\}\|panic\|", "needs > 4 GiB of leading whitespace in one token"),
 (r"lexer::unknown\|unwrap\|", "lexer:offset>=1 after consume(1)"),
 (r"lexer::warn_unterminated\|index\|", "start_offset is the ASCII opening delimiter position"),
 (r"lexer::whitespace_and_token\|split_at\|", "end_exclusive is a sub-lexer end offset: <= len and on a char boundary (sub-lexers stop after ASCII bytes, at memchr hits, at len, or at find_identifier_end)"),
 # ---- parser
 (r"consolidate_portability_directives\|sub\|var:line_index - 1#0", "the early return established that the line holds a `:`/`=` token and this branch that its last token is `;`, so the line has >= 2 tokens and len - 1 >= 1"),
 (r"consolidate_portability_directives\|sub\|len\(get_current_logical_line", "called from finish_logical_line after the is_at_start_of_line() early return, so the line has >= 1 token"),
 (r"finish_logical_line\|range\|", "drain(..) over the full range"),
 (r"(finish_logical_line|get_current_logical_line|get_current_logical_line_mut)\|unwrap\|", "line-ref-valid: current_line entries are result_lines.len() taken immediately before the push, or last_finished_line (also such a ref)"),
 (r"get_token_index::find_token_index\|sub\|", "OFFSET is a non-zero const generic in both callers' arms (..0 and 1..)"),
 (r"is_directive_after_prev_token\|sub\|", "pass_indices is strictly increasing and iterated in reverse starting at the current index"),
 (r"is_directive_after_prev_token\|bounds\|", "pass_indices is non-empty here: get_current_token_index() returned Some"),
 (r"is_directive_before_next_token\|sub\|", "pass_indices is strictly increasing (built by enumerate order in DirectiveTree::pass)"),
 (r"parse_parameter_list::fix_next_eq\|bounds\|", "index-checked: get_token_type_for_index(index) returned Some for the same index, so index < pass_indices.len() and pass_indices[index] < tokens.len()"),
 (r"consolidate_pass_lines::\{closure#0\}\|index\|", "parent.line_index refers to an earlier line of the same pass (lines are pushed before their children), and mapped_line_indices has one entry per processed line"),
 (r"parser::parse_file\|bounds\|", "pass tokens are indices produced by DirectiveTree from enumerate() over the same slice"),
 # ---- orchestrator
 (r"decode_file\|index\|", "bom_len returned by Encoding::for_bom is <= buffer length (2 or 3 bytes that were matched)"),
]

FINDINGS = {}

def main():
    d, _ = extract.extract("default", quiet=True)
    prog = Program(d)
    sites = panic.enumerate_sites(prog)
    out = {}
    unmatched = []
    for s in sites:
        fn = panic.AUTO.get(s.kind)
        if fn and fn(prog, s):
            continue
        for rx, reason in RULES:
            if re.search(rx, s.key):
                out[s.key] = {"guard": reason, "where_at_review": s.where()}
                break
        else:
            unmatched.append(s)
    for s in unmatched:
        print("UNMATCHED", s.where(), s.key)
    if "--write" in sys.argv:
        json.dump({"_comment": "Reviewed panic-site inventory (C04.b). Keys are (body|kind|canonical operands#ordinal); no line numbers. Frozen by hand review; the check never writes this file.",
                   "sites": out}, open(panic.INVENTORY, "w"), indent=1, sort_keys=True)
    print(len(out), "entries;", len(unmatched), "unmatched")

main()
