#!/usr/bin/env bash
# Intake of a behaviour-preserving refactoring produced in a scratch worktree of /repo (negative control).
#   tools/intake_control.sh <worktree> <P1+P2..> <name>
# Confirms: patch.diff is exactly the worktree's diff; compare.sh (agent's byte-for-byte comparison of the unmodified and the
# refactored binary over the datatest corpus and edge inputs) exits 0 against a binary built here from /repo; the test suite passes.
# Then stores the patch as controls/<P1+P2..>-<name>.patch (+ .json with the agent's equivalence argument) and removes the worktree.
set -u
WT="$1"; PROPS="$2"; NAME="$3"
VERIF="$(cd "$(dirname "${BASH_SOURCE[0]}")/.." && pwd)"
export CARGO_NET_OFFLINE=true
fail() { echo "INTAKE FAILED: $*"; exit 1; }
[ -f "$WT/seed_out/patch.diff" ] && [ -f "$WT/seed_out/compare.sh" ] && [ -f "$WT/seed_out/meta.json" ] || fail "deliverables missing"
( cd "$WT" && git diff | diff -q - seed_out/patch.diff >/dev/null ) || fail "patch.diff differs from the worktree's git diff"
( cd "$WT" && cargo build --offline 2>&1 | tail -1 )
( cd /repo && cargo build --offline 2>&1 | tail -1 )
( cd "$WT" && RUST_BACKTRACE=0 RUST_LIB_BACKTRACE=0 PASFMT_ORIG="${BASE_BIN:-/repo/target/debug/pasfmt}" PASFMT_NEW="$WT/target/debug/pasfmt" bash seed_out/compare.sh > /tmp/intake-compare.txt 2>&1 ); cmp=$?
tail -2 /tmp/intake-compare.txt
[ "$cmp" = 0 ] || fail "compare.sh reports a behavioural difference against /repo's binary"
res="$( cd "$WT" && cargo test --workspace --offline 2>&1 | grep '^test result' | sed 's/\x1b\[[0-9;]*m//g' )"
if echo "$res" | grep -v " 0 failed" | grep -q .; then fail "test suite fails with the change"; fi
passed=$(echo "$res" | sed -n 's/.* \([0-9]*\) passed.*/\1/p' | paste -sd+ | bc)
[ "$passed" -ge 3212 ] || fail "only $passed tests passed"
mkdir -p "$VERIF/controls"
cp "$WT/seed_out/patch.diff" "$VERIF/controls/$PROPS-$NAME.patch"
python3 - "$WT/seed_out/meta.json" "$VERIF/controls/$PROPS-$NAME.json" "$passed" <<'PY'
import json, sys
d = json.load(open(sys.argv[1]))
d["confirmed_by_me"] = "tools/intake_control.sh: patch equals the worktree diff; the agent's compare.sh (byte-for-byte stdout/stderr/exit code over the datatest corpus and edge inputs) exits 0 against a binary built from /repo; cargo test --workspace --offline with the change: %s passed, 0 failed" % sys.argv[3]
json.dump(d, open(sys.argv[2], "w"), indent=1)
PY
git -C /repo worktree remove --force "$WT"; rm -rf "$WT" /tmp/intake-compare.txt
echo "CONTROL OK: controls/$PROPS-$NAME.patch"
