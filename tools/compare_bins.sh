#!/usr/bin/env bash
# usage: tools/compare_bins.sh <bin-a> <bin-b> [corpus-dir]
# Byte-for-byte comparison (stdout, stderr, exit code) of two pasfmt binaries over every file of the generated datatest corpus,
# with the default configuration and with `-C line_ending=crlf -C use_tabs=true -C wrap_column=60`, plus `--cursor` runs on a sample.
# Used to re-confirm a negative control after /repo moved on and its patch had to be rebased.
set -u
A="$1"; B="$2"; CORPUS="${3:-/repo/core/datatests/generated}"
export RUST_BACKTRACE=0 RUST_LIB_BACKTRACE=0
[ -d "$CORPUS" ] || { echo "corpus $CORPUS missing (run cargo test once in that tree)"; exit 2; }
one() {
  f="$1"; shift
  for cfg in "" "-C line_ending=crlf -C use_tabs=true -C wrap_column=60" "--cursor 0,5,17,60,1000"; do
    oa=$("$A" $cfg < "$f" 2>/tmp/cmp.$$.ea; echo "rc=$?"); ob=$("$B" $cfg < "$f" 2>/tmp/cmp.$$.eb; echo "rc=$?")
    if [ "$oa" != "$ob" ] || ! cmp -s /tmp/cmp.$$.ea /tmp/cmp.$$.eb; then echo "DIFF: $f [$cfg]"; fi
  done
  rm -f /tmp/cmp.$$.ea /tmp/cmp.$$.eb
}
export -f one; export A B
n=$(find "$CORPUS" -type f | wc -l)
d=$(find "$CORPUS" -type f -print0 | xargs -0 -P 14 -n 1 bash -c 'one "$0"' | tee /dev/stderr | grep -c "^DIFF")
echo "compared $n files x 3 invocations: $d difference(s)"
[ "$d" = 0 ]
