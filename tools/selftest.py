#!/usr/bin/env python3
"""Self-test of the checker (not part of any verdict).

For every seeded/<name>/patch.diff and mutants/<name>.patch: apply it to a scratch worktree of /repo
(outside /repo and /verif, removed afterwards), run the quick check of the property it breaks and
require exit status 1 with a VIOLATION line; for every controls/<P1+P2..>-<name>.patch (a behaviour-preserving
rewrite) require the checks P1, P2, .. to stay silent; finally require every claimed check to be silent on the
unpatched tree.  Usage: tools/selftest.py [name-substring ...]
"""
import json
import os
import subprocess
import sys
import glob

VERIF = os.path.dirname(os.path.dirname(os.path.abspath(__file__)))


def prop_of(path):
    d = os.path.dirname(path)
    meta = os.path.join(d, "meta.json")
    if os.path.basename(path) == "patch.diff" and os.path.exists(meta):
        return json.load(open(meta))["property"]
    return os.path.basename(path).split("-")[0]


JOBS = int(os.environ.get("SELFTEST_JOBS", "6"))


def run_all(jobs):
    """jobs: [(label, argv)] -> {label: CompletedProcess}; each of JOBS parallel workers uses a fact / cargo cache of its own under /tmp
    (extractions that share a cargo target directory are serialised by a lock, which would serialise the whole run)."""
    import queue
    import threading
    from concurrent.futures import ThreadPoolExecutor
    caches = queue.Queue()
    for k in range(JOBS):
        caches.put("/tmp/selftest-cache-%d" % k)
    out = {}
    lock = threading.Lock()

    def one(job):
        label, argv, extra_env = job
        c = caches.get()
        try:
            env = dict(os.environ, VERIF_CACHE=c, **extra_env)
            r = subprocess.run(argv, cwd=VERIF, stdout=subprocess.PIPE, stderr=subprocess.STDOUT, text=True, env=env)
        finally:
            caches.put(c)
        with lock:
            out[label] = r
    with ThreadPoolExecutor(max_workers=JOBS) as ex:
        list(ex.map(one, jobs))
    return out


def main():
    pats = sys.argv[1:]
    if "--keep-cache" in pats:
        pats.remove("--keep-cache")
        keep = True
    else:
        keep = False
    items = sorted(glob.glob(os.path.join(VERIF, "seeded", "*", "patch.diff"))) + sorted(glob.glob(os.path.join(VERIF, "mutants", "*.patch")))
    if pats:
        items = [i for i in items if any(p in i for p in pats)]
    bad = 0
    WP = os.path.join(VERIF, "tools", "with_patch.sh")
    ctrls = sorted(glob.glob(os.path.join(VERIF, "controls", "*.patch")))
    if pats:
        ctrls = [c for c in ctrls if any(p in c for p in pats)]
    jobs = [(("seed", it), [WP, it, "check", prop_of(it)], {}) for it in items]
    jobs += [(("ctl", it, prop), [WP, it, "check", prop], {}) for it in ctrls for prop in os.path.basename(it).split("-")[0].split("+")]
    results = run_all(jobs)
    for it in items:
        prop = prop_of(it)
        r = results[("seed", it)]
        fired = r.returncode == 1 and "VIOLATION property=%s" % prop in r.stdout
        rules = sorted({l.split("]")[0].strip("[").split()[0] for l in r.stdout.splitlines() if l.startswith("[C") and "tier=" not in l})
        name = os.path.relpath(it, VERIF)
        print("%-70s %s  %s  %s" % (name, prop, "DETECTED" if fired else "MISSED (exit %d)" % r.returncode, ",".join(rules)))
        if not fired:
            bad += 1
    # negative controls: behaviour-preserving rewrites of reviewed code; the named checks must stay silent
    for it in ctrls:
        props = os.path.basename(it).split("-")[0].split("+")
        for prop in props:
            r = results[("ctl", it, prop)]
            ok = r.returncode == 0 and "VIOLATION" not in r.stdout
            print("%-70s %s  %s" % (os.path.relpath(it, VERIF), prop, "silent (as required)" if ok else "FALSE ALARM"))
            if not ok:
                bad += 1
    if not pats:
        m = json.load(open(os.path.join(VERIF, "MANIFEST.json")))
        for c in m["checks"]:
            env = dict(os.environ, VERIF_EVIDENCE_DIR="/tmp/selftest-ev")
            r = subprocess.run(c["quick_cmd"].split(), cwd=VERIF, stdout=subprocess.PIPE, stderr=subprocess.STDOUT, text=True, env=env)
            ok = r.returncode == 0 and "VIOLATION" not in r.stdout
            print("%-70s %s  %s" % ("unpatched tree", c["property_id"], "silent" if ok else "ALARM"))
            if not ok:
                bad += 1
        subprocess.run(["rm", "-rf", "/tmp/selftest-ev"])
    if not keep:
        for k in range(JOBS):
            subprocess.run(["rm", "-rf", "/tmp/selftest-cache-%d" % k])
    print("selftest: %d problem(s)" % bad)
    return 1 if bad else 0


if __name__ == "__main__":
    sys.exit(main())
