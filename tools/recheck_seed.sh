#!/usr/bin/env bash
# Re-confirm kept seeds against /repo's current HEAD (after a fix: commit): the patch still applies, the demo still exits 1
# with the change and 0 with /repo's own binary.   tools/recheck_seed.sh <seed-name>...     (add SUITE=1 to run the tests too)
set -u
export CARGO_NET_OFFLINE=true RUST_BACKTRACE=0
( cd /repo && cargo build --offline 2>&1 | tail -1 )
rc=0
for NAME in "$@"; do
  D=/verif/seeded/$NAME
  WT=$(mktemp -d /tmp/pasfmt-rs-XXXXXX); rmdir "$WT"
  git -C /repo worktree add --detach -q "$WT" HEAD || exit 2
  if ! git -C "$WT" apply "$D/patch.diff" 2>/dev/null; then echo "$NAME: PATCH DOES NOT APPLY"; rc=1; git -C /repo worktree remove --force "$WT"; continue; fi
  ( cd "$WT" && cargo build --offline 2>&1 | grep -E "^error" | head -3 )
  ( cd "$WT" && PASFMT_BIN="$WT/target/debug/pasfmt" bash "$D/demo.sh" >/dev/null 2>&1 ); with=$?
  ( cd "$WT" && PASFMT_BIN=/repo/target/debug/pasfmt bash "$D/demo.sh" >/dev/null 2>&1 ); without=$?
  st=OK; { [ "$with" = 1 ] && [ "$without" = 0 ]; } || { st=STALE; rc=1; }
  if [ "${SUITE:-0}" = 1 ]; then
    res="$( cd "$WT" && cargo test --workspace --offline 2>&1 | grep '^test result' | sed 's/\x1b\[[0-9;]*m//g' )"
    echo "$res" | grep -v " 0 failed" | grep -q . && { st="$st SUITE-FAILS"; rc=1; }
  fi
  echo "$NAME: with=$with without=$without $st"
  git -C /repo worktree remove --force "$WT"; rm -rf "$WT"
done
exit $rc
