#!/bin/bash
# usage: tools/devtree.sh <patch> <dir>   — scratch worktree of /repo with a patch applied, for developing a rule against it
# (run checks with PASFMT_REPO=<dir> ./verif check <ID>; remove with: git -C /repo worktree remove --force <dir>)
set -e
git -C /repo worktree add --detach -q "$2" HEAD
git -C "$2" apply "$1"
echo "ok $2"
